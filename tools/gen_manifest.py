#!/venv/bin/python
"""Regenerates /verif/MANIFEST.json from the registry of checks that exist."""
import json
import os
import sys

HERE = os.path.dirname(os.path.dirname(os.path.abspath(__file__)))
sys.path.insert(0, HERE)

NOT_APPLICABLE = {
    'C07': "cache_key is a pure function of the task's type and parameter values: no schedule, clock, I/O, fault or second party enters it; deciding it is parameter-tree input generation, which this technique family does not cover (its cross-process half is exercised incidentally by every C06 run)",
    'C15': "construction-time normalisation, ==, hash, pickle round trip and dependency search are pure functions of one parameter tree; nothing is quantified over schedules, crashes, histories or faults",
    'C18': "each LocalStorage call is a single sequential function of (key, filename, pre-existing directory layout); quantified over adversarial strings and layouts, not interleavings, crash points or I/O faults - input fuzzing with a filesystem oracle, not simulation",
    'C20': "build_task_diagram is a pure function of the task list",
}

TEXT = {
    'C01': ('exploration', '7 C01', "Seeded search over DAG shapes x serial / coordinator-simulation / simulated fork / simulated spawn x worker counts x cache pre-states (incl. bust_cache) x completion orders x 16 hash-seed classes; every returned dict is compared with a reference evaluator that works on the specification only; in a third of the runs the same task objects are handed to a second run_tasks call (new Lab, no storage, another context); task results include None; some tasks start a multiprocessing child of their own; on the in-process substrates the storage directory is sometimes a relative path while tasks change the working directory. Sampling: a clean batch is evidence, not proof.",
            "S2 stub fidelity (SimProcess/SimQueue model CPython 3.12 multiprocessing on Linux); spawn flavour really pickles task and results; values are unique per node so a foreign result cannot compare equal"),
    'C02': ('exploration', '7 C02', "Every run() begin is checked against the finish instant of every dependency (global event sequence numbers, not time) and every value read inside run() against that dependency's real result of this run; failing (exceptions, sys.exit) and dying (SIGKILL, os._exit with status 0/1) dependencies and storage read errors while a cached dependency is loaded are injected; a second run_tasks call on the same task objects checks that nothing read in the first call leaks into it.",
            "finish instant of a dependency = its run() end / failure / kill event recorded by the probe; interleavings finer than seam operations are not generated"),
    'C03': ('exploration', '7 C03', "Per distinct node at most one run() begin and one cache load (seen at the Storage seam), never both; executed/loaded sets equal a reference planner over (spec, cached subset, bust flag); every reachable instance carries result_meta; in a third of the runs a second call on the same Lab object and task objects must load what the first call cached.",
            "cache pre-state is established by a real earlier serial run plus deletion of entries; the planner is an independent model over the specification"),
    'C04': ('exploration', '7 C04', "Invariant after every event: per type, tasks inside run() <= max_parallel; executing task processes <= max_workers (true process liveness in S2, in-flight set at submit in S1); workers are parked inside run() so that limits are binding; deaths and multi-completion batches are forced; half of the process-backend runs are preceded by another run_tasks call with a different max_workers inside the same simulated OS.",
            "a worker that has queued its result and is only exiting is not counted as executing"),
    'C05': ('exploration', '7 C05', "At every resting point (S1: each wait(); S2: >=3 quiet polls - or 1.5 virtual seconds without any change - with every live worker parked inside run(); some task processes linger for seconds after their task is over) the number of executing tasks must equal the capacity model min(max_workers, sum over types of min(max_parallel, runnable)).",
            "a resting point is a state of the simulation, not a duration; a dead worker may take two polls to be noticed, which is why three quiet polls are required"),
    'C06': ('exploration', '7 C06', "Histories first run -> second run -> (1 in 6) third run in a fresh interpreter started with another PYTHONHASHSEED, with independently drawn backends (serial / S1 / simulated fork / simulated spawn) and virtual, ticking, coarse (recorded durations of exactly zero) or real clocks for the first run: every executed cacheable node must be reported cached, the later runs must return equal values without any run() begin for cached nodes, and result_meta must equal the originally recorded start and duration; a third of the histories continue with a bust_cache re-execution and another hit (which must return the new generation); in half of the histories the same task objects go through every in-process step and their result_meta is compared, after every executing step and every hit, with what the storage holds (read by a new Lab); plus real first-run/second-run histories on the real backends with task classes defined in the __main__ script. Values are unique per node, so an entry stored under or loaded from another key cannot pass.",
            "the second and third runs use a different context generation so that a re-execution is visible in the value"),
    'C08': ('exploration', '7 C08', "Stateful model check: generated histories (<= 10 operations: run (through run_tasks or run_task), run with bust_cache, runs with failing tasks, uncache, cached_tasks, probe-run of the listed tasks, new Lab object; one Lab object and one set of task objects live across operations) over a generated universe of <= 7 nodes (dependency chains up to depth 3) including cache=None types and a type whose result is None, on LocalStorage, FsspecStorage over fsspec's LocalFileSystem and MemoryFileSystem, and storage=None; after every operation is_cached of every node, the cached_tasks listing, executed sets and returned values are compared with a plain reference dictionary and planner; look-alikes of cached tasks (same parameters, another class of a nested task or the same-named class of another module) must not be reported cached.",
            "equality is on public observations (is_cached, cached_tasks, returned values, execution records), not on directory listings"),
    'C09': ('exploration', '7 C09', "The C08 history machine with universes drawn from the supported parameter grammar (empty / unicode / JSON-special strings, big and negative ints, +-inf floats, None, enum members, nested tuples / lists / string-keyed dicts, nested tasks, enums with an int / str mix-in), a type whose name contains the key separator, a nested cache class, a prefix-named pair of task types, a same-named type in a second module and two cache formats in one storage: cached_tasks (also with a type named twice, also for tasks whose parameters are == but different values: 1 / True / 1.0) must return each cached task exactly once, equal to the original value by value and type by type, with the same cache_key and the stored result_meta, nothing of other types, and running the returned tasks must load the stored values without executing.",
            "NaN parameters are excluded (a task holding NaN is not equal to a rebuilt copy of itself under any implementation)"),
    'C10': ('exploration', '7 C10', "Any subset of nodes raises or dies (worker killed before its result is queued); continue_on_failure both ways; in a quarter of the runs the task objects have been through an earlier, all-successful run_tasks call, in a fifth the Lab object has been through an interrupted one; a quarter run with the task monitor (psutil stood in for simulated processes); oracle = reference planner with transitive failure: returned set, values, cached entries, exception type and cause, nothing started after the raise.",
            "death points inside the save are excluded here (C13's subject)"),
    'C11': ('exploration', '7 C11', "Liveness as bounded progress: S1 flags wait() with nothing in flight (spin) and caps wait() calls; S2 requires run_tasks to finish within 10 polling rounds of the last worker event and aborts on deadlock / 20 000 scheduler steps / 600 virtual seconds; random kills, kills after the result was queued, kills in the middle of the transfer of a result larger than a pipe buffer (queues made by a context are modelled as pipes), task processes that fork a helper which outlives them (Process.sentinel is a real descriptor), max_workers=1, progress displays on and off.",
            "virtual-time assumption: coordinator CPU steps are instantaneous relative to the 0.5 s poll"),
    'C12': ('fault_enumeration', '7 C12', "Single-fault enumeration: a fault-free reference execution of each configuration (cache format x result shape small / multi-frame / unpicklable-at-depth x first save / overwrite; thorough: x serial / S1 / simulated fork / simulated spawn) lists every injection point of the save - each storage call, each write/flush/close, a torn variant of each write, each executed line - and there is one run per point; afterwards a new Lab - and the very Lab / storage / cache objects of the session that failed - must either not report the task, or load a complete acceptable value; overwrites are preceded by a cache hit in the same session. Exhaustive over the points of the reference executions.",
            "single faults only; injection points are those of the reference execution (a run that does not reach its point is a harness error)"),
    'C13': ('fault_enumeration', '7 C13', "Kill-point enumeration in the simulated process backends: the worker is killed (frozen for ever, no finally, no with-exit) at every yield point of its save phase - storage calls, write/flush/close boundaries, line boundaries of the save path, a split inside writes larger than a page - each with user-space buffers lost and flushed first; first save and overwrite; a recursive delete inside the save is file-by-file; afterwards a new Lab must either not report the task or load a complete old/new value. Exhaustive over the kill points of the reference executions; plus a real-OS probe that SIGKILLs a real forked worker at the k-th file operation of its save.",
            "process-kill semantics only (OS page cache survives); interleavings inside one storage operation (e.g. a half-finished rmtree) are not modelled"),
    'C14': ('fault_enumeration', '7 C14', "Interrupt instants are the check points at which CPython 3.12 can raise KeyboardInterrupt in the calling thread's Python code - entry of a labtech function, loop back-edge, return from a C call made by labtech code, call of a non-labtech Python function - not arbitrary line starts (a `try:` line, for one, is a NOP that no handler covers and at which nothing can be raised). Serial backend: one run per check point executed inside labtech during run_tasks (exhaustive for two fixed workloads, ~5 700 instants) plus sampled interrupt pairs; process backends (simulated fork/spawn): every main-thread check point of fixed workloads and schedules (single interrupt, enumerated) plus a seeded search over DAGs (some tasks fail), schedules and one or two interrupt instants, delivered at main-thread check points, inside a manager-proxy call of the main thread (request sent, reply not yet read: the reply stays unread on that thread's connection to that manager and later calls read the reply before theirs; enumerated for the fixed workloads with and without the task monitor) or while the main thread is blocked in the helper thread's join, to the whole foreground group according to each process's recorded SIGINT disposition and signal mask (a blocked SIGINT stays pending, an ignored one is discarded; children inherit the mask under both start methods; the first spawn of an interpreter starts multiprocessing's resource tracker, which leaves SIGINT unblocked in the caller). Oracle: KeyboardInterrupt and nothing else, no process/task start after the interrupt, executing workers finish and their results are cached (single) or are dead without a further worker step (double; a task process that handles SIGTERM is not ended by terminate()), every entry reported cached afterwards loads a correct value; plus real killpg(SIGINT) on real fork and spawn runs: single and double at a resting point (all workers inside run(); after the single one, one of the tasks fails while the run is drained - the Lab has continue_on_failure=False), and single at the instant the first task process exists (workers still starting up).",
            "interrupt instants are the signal check points of CPython 3.12 as seen from labtech's own code, blocked seam operations and the send/receive gap of manager proxy calls; check points inside the standard library are attributed to the labtech call that entered it"),
    'C16': ('exploration', '7 C16', "At the process-creation seam every worker of the fork/spawn backend must be requested from the fork/spawn context; context seen inside run() equals filter_context(lab.context); storage is byte-identical between runs differing only in context; (also for results that contain task objects); workloads contain failing tasks and the caller's process name after the call must be what it was before (in-process backends); plus a real-OS probe (pid, ppid, module global mutated by the parent) on the three real backends, alone and after another process backend was used in the same interpreter.",
            "the real-OS half has no schedule dependence and is a real-execution probe, declared as such"),
    'C19': ('exploration', '7 C19', "Simulated fork and spawn backends; every node emits a drawn pattern of uniquely tokenised labtech.logger records, printed lines, stderr lines, partial writes and explicit flushes; a handler on the caller's logger (which carries two handlers; neither may ever handle a record inside a task process) must have received each required token exactly once before run_tasks returns (continue_on_failure=False included: what the tasks processed up to the raising one wrote is due); the scheduler decides which worker finishes in the last polling round; some emitters repeat the very same text (every copy is due), some produce bursts of up to 2 300 records between two polls (manager queues honour maxsize), some die right after emitting (what had left their process is still due), some raise right after emitting (everything is due); plus the same message kinds, a repeated line and a burst of 3 000 records on the real fork and spawn backends.",
            "exit-flush ordering of BaseProcess._bootstrap (and the second flush at interpreter finalisation of a spawned child) is modelled from the CPython 3.12 source and was compared with the real backends by hand"),
    'C17': ('exploration', '7 C17', "A pass-through spy around the real Serial/Fork/Spawn runners and the S1 runner checks with Runner.get_result (pure read) that results stay until the last direct dependent finished and are gone afterwards, that nothing is held at return, that requested results reach the return value, and (serial backend) that whenever a task begins every result whose dependents have all ended is already gone, over completion orders, failure patterns and all 16 hash-seed classes.",
            "weak-reference liveness only where result objects are local (S0/S1)"),
}


def main():
    from simlab.registry import all_ids
    ids = all_ids()
    props = [json.loads(l) for l in open(os.path.join(HERE, 'properties.jsonl'))]
    checks = []
    for pid in ids:
        level, ref, text, note = TEXT[pid]
        checks.append({
            'property_id': pid,
            'quick_cmd': f'./check {pid} quick',
            'thorough_cmd': f'./check {pid} thorough',
            'evidence_file': f'/verif/evidence/{pid}.json',
            'replay_cmd_template': './check replay {path}',
            'engine': 'simlab',
            'level_claimed': {'category': level, 'text': text, 'design_ref': f'DESIGN.md section {ref}'},
            'level_note': note,
            'technique': 'deterministic simulation with fault injection: seeded schedule/fault search over simulated runs',
        })
    na = []
    for p in props:
        pid = p['id']
        if pid in ids:
            continue
        reason = NOT_APPLICABLE.get(pid, 'check not built yet in this session (claimed in DESIGN.md; will be registered when its check exists)')
        na.append({'property_id': pid, 'reason': reason})
    manifest = {
        'version': 1,
        'setup_cmd': './check setup',
        'hooks': {
            'guard': 'LABTECH_VERIF',
            'enable': 'no hooks: every seam used is a public ABC (Runner, RunnerBackend, Storage) or an existing module attribute of labtech.runners.{process,base}; nothing to enable',
            'baseline_off_cmd': 'cd /repo && /venv/bin/python -m pytest -ra -q -p no:cacheprovider --timeout=900 --continue-on-collection-errors',
            'source_commits': [],
            'add_only': True,
        },
        'engines': [{
            'name': 'simlab', 'path': '/verif/simlab', 'serves_properties': ids,
            'kind_free_text': 'deterministic simulation with fault injection: seeded baton scheduler over real threads, virtual clock, simulated processes / manager queues / signals / storage; sys.monitoring LINE events as pre-emption and injection points',
        }],
        'checks': checks,
        'not_applicable': na,
        'notes': 'Checks execute /repo\'s working tree (VERIF_REPO, default /repo, is put first on sys.path of every interpreter). Exit 0 held / 1 VIOLATION with replay file / 2 HARNESS-ERROR. Genuine defects repaired in /repo are listed in known_findings.json as fixed entries.',
    }
    with open(os.path.join(HERE, 'MANIFEST.json'), 'w') as f:
        json.dump(manifest, f, indent=1)
    import jsonschema
    jsonschema.validate(manifest, json.load(open('/root/.vp/MANIFEST.schema.json')))
    print('MANIFEST.json written:', len(checks), 'checks,', len(na), 'not applicable')


if __name__ == '__main__':
    main()
