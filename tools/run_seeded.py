#!/venv/bin/python
"""Confirm and evaluate the seeded breaking changes kept under /verif/seeded/<id>/.

For every change: (1) in a scratch git worktree of /repo (outside /repo and /verif) the
demonstration passes on the unmodified tree; (2) with the patch applied the existing test
suite passes and the demonstration fails; (3) the property's check(s) are run against the
patched copy (VERIF_REPO=<scratch>) and must report a violation.  Writes meta.json.

usage: tools/run_seeded.py [--confirm] [--checks quick|thorough] [id ...]
"""
import json
import os
import shutil
import subprocess
import sys
import tempfile
import time

HERE = os.path.dirname(os.path.dirname(os.path.abspath(__file__)))
PY = '/venv/bin/python'


def sh(cmd, **kw):
    return subprocess.run(cmd, capture_output=True, text=True, **kw)


def run_demo(repo, demo, timeout=600):
    """Runs a demonstration in a session of its own with the default SIGINT disposition (a background job
    of a non-interactive shell inherits SIGINT as ignored, and Python then never raises KeyboardInterrupt),
    output to a file (orphaned manager processes of a demo would keep a pipe open), and removes whatever
    processes it leaves behind."""
    import signal
    env = {**os.environ, 'PYTHONPATH': repo}
    logf = tempfile.NamedTemporaryFile(prefix='simlab-demo-', suffix='.log', dir='/tmp', delete=False)
    try:
        p = subprocess.Popen([PY, demo], cwd=repo, env=env, stdout=logf, stderr=subprocess.STDOUT, stdin=subprocess.DEVNULL,
                             start_new_session=True, preexec_fn=lambda: signal.signal(signal.SIGINT, signal.SIG_DFL))
        try:
            rc = p.wait(timeout=timeout)
        except subprocess.TimeoutExpired:
            rc = 124
        try:
            os.killpg(p.pid, signal.SIGKILL)
        except (ProcessLookupError, PermissionError):
            pass
        if rc == 124:
            p.wait()
            return 124, 'timeout'
        logf.flush()
        with open(logf.name, 'rb') as f:
            out = f.read().decode('utf-8', 'replace')
        return rc, out[-600:]
    finally:
        logf.close()
        os.unlink(logf.name)


def main(argv):
    args = [a for a in argv[1:] if not a.startswith('--')]
    confirm = '--confirm' in argv
    tier = 'thorough' if '--thorough' in argv else 'quick'
    extra_props = [a.split('=')[1].split(',') for a in argv if a.startswith('--also=')]
    ids = sorted(os.listdir(os.path.join(HERE, 'seeded')))
    for sid in ids:
        if args and sid not in args:
            continue
        d = os.path.join(HERE, 'seeded', sid)
        if not os.path.exists(os.path.join(d, 'patch.diff')):
            continue
        prop = sid.split('-')[0]
        meta_path = os.path.join(d, 'meta.json')
        meta = json.load(open(meta_path)) if os.path.exists(meta_path) else {'id': sid, 'property': prop}
        scratch = tempfile.mkdtemp(prefix='simlab-seeded-', dir='/tmp')
        repo = scratch + '/r'
        try:
            sh(['git', '-C', '/repo', 'worktree', 'add', '-q', '--detach', repo, 'HEAD'])
            demo = os.path.join(repo, 'demo.py')      # (some demonstrations import themselves as `demo`)
            shutil.copy(os.path.join(d, 'demo.py'), demo)
            if confirm:
                rc0, out0 = run_demo(repo, demo)
                meta['demo_on_unmodified_tree'] = {'exit': rc0, 'ok': rc0 == 0}
            ap = sh(['git', '-C', repo, 'apply', os.path.join(d, 'patch.diff')])
            if ap.returncode != 0:
                # the patch was written against an earlier /repo HEAD: fall back to a 3-way merge
                ap = sh(['git', '-C', repo, 'apply', '--3way', os.path.join(d, 'patch.diff')])
                meta['applied_with_3way'] = ap.returncode == 0
            if ap.returncode != 0:
                meta['patch_applies'] = False
                meta['apply_error'] = ap.stderr[-300:]
                print(sid, 'PATCH DOES NOT APPLY', ap.stderr[-200:])
                json.dump(meta, open(meta_path, 'w'), indent=1)
                continue
            meta['patch_applies'] = True
            if confirm:
                t = sh([PY, '-m', 'pytest', '-q', '-p', 'no:cacheprovider', '--timeout=900'], cwd=repo,
                       env={**os.environ, 'PYTHONPATH': repo})
                tail = [l for l in t.stdout.splitlines() if 'passed' in l or 'failed' in l]
                meta['test_suite_with_patch'] = {'exit': t.returncode, 'summary': tail[-1] if tail else t.stdout[-200:]}
                rc1, out1 = run_demo(repo, demo)
                meta['demo_with_patch'] = {'exit': rc1, 'fails': rc1 != 0, 'tail': out1[-300:]}
            props = [prop] + (extra_props[0] if extra_props else [])
            checks = meta.setdefault('checks', {})
            for pr in props:
                t0 = time.time()
                env = {**os.environ, 'VERIF_REPO': repo, 'VERIF_EVIDENCE_DIR': os.path.join(repo, '_evidence')}
                p = sh([os.path.join(HERE, 'check'), pr, tier], cwd=HERE, env=env)
                verdict = {0: 'missed', 1: 'caught', 2: 'harness-error'}.get(p.returncode, str(p.returncode))
                lines = [l for l in p.stdout.splitlines() if l.startswith(('VIOLATION', '  oracle=', 'HARNESS', 'OK'))]
                checks[f'{pr}:{tier}'] = {'verdict': verdict, 'wall_s': round(time.time() - t0, 1), 'output': [l[:400] for l in lines[:3]]}
                print(sid, pr, tier, verdict, (lines[1][:220] if len(lines) > 1 else (lines[0][:220] if lines else '')), flush=True)
            meta['repo_head'] = sh(['git', '-C', '/repo', 'rev-parse', '--short', 'HEAD']).stdout.strip()
            json.dump(meta, open(meta_path, 'w'), indent=1)
            if confirm:
                print(sid, 'confirm:', meta.get('demo_on_unmodified_tree'), meta.get('test_suite_with_patch'), meta.get('demo_with_patch', {}).get('fails'), flush=True)
        finally:
            sh(['git', '-C', '/repo', 'worktree', 'remove', '--force', repo])
            shutil.rmtree(scratch, ignore_errors=True)
    return 0


if __name__ == '__main__':
    sys.exit(main(sys.argv))
