#!/bin/bash
# usage: tools/soak.sh <tier> <seed> [<seed> ...]   - runs every check with each seed, prints one line per check
# (writes evidence files of the directory it runs in; meant for `vp run` snapshots)
tier=$1; shift
for seed in "$@"; do
  for p in C01 C02 C03 C04 C05 C06 C08 C09 C10 C11 C12 C13 C14 C16 C17 C19; do
    out=$(VERIF_SEED=$seed ./check $p $tier 2>&1 | grep -v "^WARNING")
    code=$?
    echo "seed=$seed $p $(echo "$out" | grep -E '^(OK|VIOLATION|HARNESS)' | head -1 | cut -c1-200)"
    echo "$out" | grep -E "^  oracle=" | head -1 | cut -c1-300
  done
done
