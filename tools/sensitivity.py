#!/venv/bin/python
"""Sensitivity self-test: apply each small mutant of /verif/mutants/mutants.json to a
scratch copy of /repo (outside /repo and /verif), confirm the existing test suite still
passes on it, and require the property's quick check to report a violation.

usage: tools/sensitivity.py [mutant-id ...]     (development evidence; not a registered check)
"""
import json
import os
import shutil
import subprocess
import sys
import tempfile

HERE = os.path.dirname(os.path.dirname(os.path.abspath(__file__)))
PY = '/venv/bin/python'


def main(argv):
    mutants = json.load(open(os.path.join(HERE, 'mutants', 'mutants.json')))
    want = set(argv[1:])
    run_tests = os.environ.get('SENS_TESTS', '1') == '1'
    results = []
    for m in mutants:
        if want and m['id'] not in want:
            continue
        scratch = tempfile.mkdtemp(prefix='simlab-mutant-', dir='/tmp')
        try:
            subprocess.run(['git', '-C', '/repo', 'worktree', 'add', '-q', '--detach', scratch + '/r', 'HEAD'], check=True)
            repo = scratch + '/r'
            # carry over uncommitted edits of /repo's working tree (checks always follow the working tree)
            diff = subprocess.run(['git', '-C', '/repo', 'diff', 'HEAD'], capture_output=True, text=True).stdout
            if diff.strip():
                subprocess.run(['git', '-C', repo, 'apply'], input=diff, text=True, check=True)
            path = os.path.join(repo, m['file'])
            src = open(path).read()
            if m['old'] not in src:
                results.append((m['id'], m['property'], 'STALE (old text not found)', ''))
                print(*results[-1], flush=True)
                continue
            open(path, 'w').write(src.replace(m['old'], m['new'], 1))
            tests = 'skipped'
            if run_tests:
                p = subprocess.run([PY, '-m', 'pytest', '-q', '-p', 'no:cacheprovider', '--timeout=900', '-x'], cwd=repo,
                                   env={**os.environ, 'PYTHONPATH': repo}, capture_output=True, text=True)
                tests = 'pass' if p.returncode == 0 else 'FAIL'
            env = {**os.environ, 'VERIF_REPO': repo, 'VERIF_EVIDENCE_DIR': os.path.join(repo, '_evidence')}
            p = subprocess.run([os.path.join(HERE, 'check'), m['property'], 'quick'], cwd=HERE, env=env, capture_output=True, text=True)
            first = [l for l in p.stdout.splitlines() if l.startswith(('VIOLATION', 'OK', 'HARNESS'))]
            detail = [l for l in p.stdout.splitlines() if l.startswith('  oracle=')]
            verdict = {0: 'MISSED', 1: 'caught', 2: 'HARNESS-ERROR'}.get(p.returncode, str(p.returncode))
            results.append((m['id'], m['property'], f'tests={tests} check={verdict}', (detail[0][:200] if detail else (first[0][:200] if first else ''))))
        finally:
            subprocess.run(['git', '-C', '/repo', 'worktree', 'remove', '--force', scratch + '/r'], capture_output=True)
            shutil.rmtree(scratch, ignore_errors=True)
        print(*results[-1], flush=True)
    # (evidence of these runs went to <scratch>/_evidence: /verif/evidence only describes runs against /repo)
    missed = [r for r in results if 'caught' not in r[2]]
    return 1 if missed else 0


if __name__ == '__main__':
    sys.exit(main(sys.argv))
