#!/venv/bin/python
"""Determinism self-test: every run of every check is executed twice in one interpreter
(VERIF_RECHECK=1) plus the batch's own cross-process sample, for several VERIF_SEED values.
A mismatch makes the check exit 2 (HARNESS-ERROR nondeterminism detected).

usage: tools/selftest_determinism.py [seed ...] [--props C01,C02]
Evidence of these runs goes to a scratch directory (VERIF_EVIDENCE_DIR), not to /verif/evidence.
"""
import os
import subprocess
import sys
import time

HERE = os.path.dirname(os.path.dirname(os.path.abspath(__file__)))
sys.path.insert(0, HERE)


def main(argv):
    from simlab.registry import all_ids
    seeds = [a for a in argv[1:] if not a.startswith('--')] or ['1', '2', '3']
    props = all_ids()
    for a in argv[1:]:
        if a.startswith('--props='):
            props = a.split('=')[1].split(',')
    import shutil
    import tempfile
    scratch = tempfile.mkdtemp(prefix='simlab-selftest-ev-', dir='/tmp')
    bad = 0
    for seed in seeds:
        for p in props:
            t0 = time.time()
            env = {**os.environ, 'VERIF_SEED': seed, 'VERIF_RECHECK': '1', 'VERIF_EVIDENCE_DIR': scratch}
            r = subprocess.run([os.path.join(HERE, 'check'), p, 'quick'], cwd=HERE, env=env, capture_output=True, text=True)
            line = [l for l in r.stdout.splitlines() if l.startswith(('OK', 'VIOLATION', 'HARNESS'))]
            status = line[0][:160] if line else r.stdout[-200:]
            print(f'seed={seed} {p} exit={r.returncode} {time.time() - t0:.0f}s {status}', flush=True)
            if r.returncode != 0:
                bad += 1
    shutil.rmtree(scratch, ignore_errors=True)
    return 1 if bad else 0


if __name__ == '__main__':
    sys.exit(main(sys.argv))
