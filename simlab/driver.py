"""Batch driver: seeded search over schedules and fault sequences across many
simulated runs on 16 worker interpreters (one per PYTHONHASHSEED class),
known-findings matching, minimisation, replay files, evidence.

Exit codes: 0 held on everything explored; 1 VIOLATION (with replay file);
2 HARNESS-ERROR (never together with a VIOLATION line, never exit 0).
"""
from __future__ import annotations

import faulthandler
import json
import os
import shutil
import subprocess
import sys
import tempfile
import time
import traceback
from typing import Optional

from . import REPO_DIR, VERIF_DIR

DEFAULT_SEED = 20260926
HASH_CLASSES = 16
CHECK = os.path.join(VERIF_DIR, 'check')
PY = sys.executable


def scratch_root() -> str:
    for base in ('/dev/shm', os.environ.get('TMPDIR') or '/tmp'):
        if os.path.isdir(base) and os.access(base, os.W_OK):
            return base
    return tempfile.gettempdir()


def run_choices(base_seed: int, idx: int):
    from .choices import Choices
    return Choices(seed=f'{base_seed}:{idx}')


# ---------------------------------------------------------------- worker side

def run_isolated(fn, timeout: float) -> dict:
    """Execute one simulated run in a forked child of the worker interpreter, so that nothing a run
    leaves behind (module-level state of the code under test, parked threads, a leaked process name)
    can reach the next run.  The child returns its record as JSON through a pipe."""
    import select
    r, w = os.pipe()
    pid = os.fork()
    if pid == 0:
        code = 0
        try:
            os.close(r)
            faulthandler.dump_traceback_later(max(5, timeout - 5), exit=True)
            try:
                rec = fn()
            except BaseException as ex:   # harness failure, not a verdict
                rec = {'harness_error': ''.join(traceback.format_exception(type(ex), ex, ex.__traceback__))[-3000:]}
            data = json.dumps(rec, default=repr).encode()
            with os.fdopen(w, 'wb') as f:
                f.write(data)
        except BaseException:
            code = 3
        finally:
            os._exit(code)
    os.close(w)
    chunks = []
    deadline = time.time() + timeout
    timed_out = False
    while True:
        left = deadline - time.time()
        if left <= 0:
            timed_out = True
            break
        ready, _, _ = select.select([r], [], [], min(left, 5.0))
        if ready:
            b = os.read(r, 1 << 16)
            if not b:
                break
            chunks.append(b)
    os.close(r)
    if timed_out:
        try:
            os.kill(pid, 9)
        except ProcessLookupError:
            pass
    os.waitpid(pid, 0)
    if timed_out:
        return {'harness_error': f'per-run wall-clock watchdog ({timeout}s)'}
    try:
        return json.loads(b''.join(chunks).decode())
    except Exception:
        return {'harness_error': 'run child died without a result (crash or watchdog inside the child)'}


def worker_main() -> int:
    """Reads one JSON job from stdin, writes one JSON line per run."""
    job = json.loads(sys.stdin.read())
    from .registry import get_check
    from .choices import Choices
    chk = get_check(job['prop'])
    tier = job['tier']
    base_seed = job['base_seed']
    workdir = tempfile.mkdtemp(prefix=f'simlab-{job["prop"]}-', dir=scratch_root())
    out = sys.stdout
    real_stdout = os.fdopen(os.dup(1), 'w')
    # anything a run prints must not corrupt the protocol
    devnull = open(os.devnull, 'w')
    sys.stdout = devnull
    per_run_timeout = job.get('per_run_timeout', 120)
    recheck = job.get('recheck_every', 0)
    n = 0
    try:
        work = [(i, None) for i in job.get('indexes', [])] + [(i, c) for i, c in job.get('cases', [])]
        isolate = os.environ.get('VERIF_ISOLATE', '1') == '1'

        def one(idx, case, draws=None):
            """One execution; returns the record (with the recorded draws of seeded runs)."""
            if case is not None:
                rec = chk.run_case(case, workdir, tier)
                rec['case'] = case
            else:
                replay = job.get('replay') if draws is None else draws
                ch = Choices(replay=replay) if replay is not None else run_choices(base_seed, idx - job.get('seed_offset', 0))
                rec = chk.run(ch, workdir, tier)
                rec['draws'] = ch.recorded()
            rec['idx'] = idx
            return rec

        def call(idx, case, draws=None):
            if isolate:
                return run_isolated(lambda: one(idx, case, draws), per_run_timeout)
            faulthandler.dump_traceback_later(per_run_timeout, exit=True)
            try:
                return one(idx, case, draws)
            finally:
                faulthandler.cancel_dump_traceback_later()

        for idx, case in work:
            t0 = time.time()
            try:
                rec = call(idx, case)
                if 'harness_error' not in rec:
                    if recheck and n % recheck == 0:
                        rec2 = call(idx, case, rec.get('draws'))
                        if 'harness_error' in rec2:
                            rec = rec2
                        else:
                            rec['recheck'] = (rec2['event_digest'] == rec['event_digest'])
                            if not rec['recheck']:
                                rec['recheck_digests'] = [rec['event_digest'], rec2['event_digest']]
                if 'harness_error' not in rec:
                    if not (rec['violations'] or job.get('want_draws')):
                        rec.pop('draws', None)
                    if not job.get('keep_sample') and not rec['violations'] and n >= 3:
                        rec.pop('sample', None)
                rec['idx'] = idx
            except BaseException as ex:   # harness failure, not a verdict
                rec = {'idx': idx, 'harness_error': ''.join(traceback.format_exception(type(ex), ex, ex.__traceback__))[-3000:]}
            rec['wall'] = round(time.time() - t0, 4)
            real_stdout.write(json.dumps(rec, default=repr) + '\n')
            real_stdout.flush()
            n += 1
        faulthandler.cancel_dump_traceback_later()
        real_stdout.write(json.dumps({'done': True, 'runs': n}) + '\n')
        real_stdout.flush()
    finally:
        shutil.rmtree(workdir, ignore_errors=True)
    return 0


def spawn_worker(job: dict, hashseed: int) -> subprocess.Popen:
    env = dict(os.environ)
    env['PYTHONHASHSEED'] = str(hashseed)
    env['VERIF_REPO'] = REPO_DIR
    env['PYTHONDONTWRITEBYTECODE'] = '1'
    # output goes to unlinked temp files: a full pipe must never stall a worker
    fout = tempfile.TemporaryFile(mode='w+b', dir=scratch_root())
    ferr = tempfile.TemporaryFile(mode='w+b', dir=scratch_root())
    p = subprocess.Popen([PY, CHECK, '_worker'], stdin=subprocess.PIPE, stdout=fout, stderr=ferr, env=env)
    p.stdin.write(json.dumps(job).encode())
    p.stdin.close()
    p.stdin = None
    p._simlab_files = (fout, ferr)
    return p


def _read_back(p):
    fout, ferr = p._simlab_files
    fout.seek(0)
    out = fout.read().decode('utf-8', errors='replace')
    ferr.seek(0, os.SEEK_END)
    size = ferr.tell()
    ferr.seek(max(0, size - 4000))
    err = ferr.read().decode('utf-8', errors='replace')      # (the tail may start inside a multi-byte character)
    fout.close()
    ferr.close()
    return out, err


def collect(p: subprocess.Popen, timeout: float):
    """Returns (records, error_text)."""
    try:
        p.wait(timeout=timeout)
    except subprocess.TimeoutExpired:
        p.kill()
        p.wait()
        out, err = _read_back(p)
        return _parse(out), f'worker wall-clock watchdog ({timeout}s)\n{err[-2000:]}'
    out, err = _read_back(p)
    recs = _parse(out)
    if p.returncode != 0 or not (recs and recs[-1].get('done')):
        return recs, f'worker exit {p.returncode}\n{err[-3000:]}'
    return recs, None


def _parse(out: str):
    recs = []
    for line in out.splitlines():
        line = line.strip()
        if not line.startswith('{'):
            continue
        try:
            recs.append(json.loads(line))
        except Exception:
            pass
    return recs


# ---------------------------------------------------------------- known findings

def load_known():
    path = os.path.join(VERIF_DIR, 'known_findings.json')
    if not os.path.exists(path):
        return []
    with open(path) as f:
        data = json.load(f)
    return [k for k in data.get('findings', []) if k.get('status') == 'known']


def match_known(v: dict, known: list) -> Optional[dict]:
    for k in known:
        if k['property'] != v['prop'] or k['code'] != v['code']:
            continue
        sig = k.get('sig', {})
        if all(v['sig'].get(a) == b for a, b in sig.items()):
            return k
    return None


# ---------------------------------------------------------------- shrinking

def shrink_main() -> int:
    """Minimise a failing draw list (runs in an interpreter with the right hash seed)."""
    job = json.loads(sys.stdin.read())
    from .registry import get_check
    from .choices import Choices
    chk = get_check(job['prop'])
    tier = job['tier']
    target = job['target']          # {'code':..., 'sig':...}
    known = load_known()
    workdir = tempfile.mkdtemp(prefix='simlab-shrink-', dir=scratch_root())
    sys.stdout = open(os.devnull, 'w')
    real_stdout = os.fdopen(os.dup(1), 'w')
    budget_runs = job.get('budget_runs', 300)
    deadline = time.time() + job.get('budget_s', 60)
    runs = [0]

    def fails(draws) -> Optional[dict]:
        if runs[0] >= budget_runs or time.time() > deadline:
            return None
        runs[0] += 1
        faulthandler.dump_traceback_later(120, exit=True)
        try:
            rec = chk.run(Choices(replay=draws), workdir, tier)
        except BaseException:
            return None
        finally:
            faulthandler.cancel_dump_traceback_later()
        for v in rec['violations']:
            if v['code'] == target['code'] and match_known(v, known) is None:
                rec['hit'] = v
                return rec
        return None

    best = {k: list(v) for k, v in job['draws'].items()}
    best_rec = fails(best)
    if best_rec is None:
        real_stdout.write(json.dumps({'ok': False, 'reason': 'original draws do not reproduce'}) + '\n')
        real_stdout.flush()
        return 0
    order = [s for s in ('sched', 'fault', 'config', 'spec') if s in best] + \
            [s for s in best if s not in ('sched', 'fault', 'config', 'spec')]
    improved = True
    while improved and runs[0] < budget_runs and time.time() < deadline:
        improved = False
        for name in order:
            cur = best[name]
            # 1. drop the tail
            n = len(cur)
            cut = n // 2
            while cut >= 1 and cur:
                cand = dict(best)
                cand[name] = cur[:len(cur) - cut]
                r = fails(cand)
                if r is not None:
                    best, best_rec, cur = cand, r, cand[name]
                    improved = True
                else:
                    cut //= 2
            # 2. zero blocks
            size = max(1, len(cur) // 4)
            while size >= 1:
                i = 0
                while i < len(cur):
                    if any(cur[i:i + size]):
                        cand = dict(best)
                        cand[name] = cur[:i] + [0] * len(cur[i:i + size]) + cur[i + size:]
                        r = fails(cand)
                        if r is not None:
                            best, best_rec, cur = cand, r, cand[name]
                            improved = True
                    i += size
                size //= 2
            # 3. lower single values
            for i in range(len(cur)):
                if cur[i] > 1:
                    cand = dict(best)
                    cand[name] = cur[:i] + [cur[i] // 2] + cur[i + 1:]
                    r = fails(cand)
                    if r is not None:
                        best, best_rec, cur = cand, r, cand[name]
                        improved = True
    # strip trailing zeros (replay yields 0 when exhausted)
    for name in list(best):
        while best[name] and best[name][-1] == 0:
            best[name].pop()
    final = fails(best) or best_rec
    shutil.rmtree(workdir, ignore_errors=True)
    real_stdout.write(json.dumps({'ok': True, 'draws': best, 'record': final, 'executions': runs[0]}, default=repr) + '\n')
    real_stdout.flush()
    return 0


def enumerate_main() -> int:
    job = json.loads(sys.stdin.read())
    from .registry import get_check
    chk = get_check(job['prop'])
    workdir = tempfile.mkdtemp(prefix='simlab-enum-', dir=scratch_root())
    real_stdout = os.fdopen(os.dup(1), 'w')
    sys.stdout = open(os.devnull, 'w')
    try:
        cases, info = chk.enumerate_cases(job['tier'], job['base_seed'], workdir)
    finally:
        shutil.rmtree(workdir, ignore_errors=True)
    real_stdout.write(json.dumps({'cases': cases, 'info': info}, default=repr) + '\n')
    real_stdout.flush()
    return 0


def run_sub(cmd: str, job: dict, hashseed: int, timeout: float):
    env = dict(os.environ)
    env['PYTHONHASHSEED'] = str(hashseed)
    env['VERIF_REPO'] = REPO_DIR
    env['PYTHONDONTWRITEBYTECODE'] = '1'
    try:
        p = subprocess.run([PY, CHECK, cmd], input=json.dumps(job), capture_output=True, text=True, env=env, timeout=timeout)
    except subprocess.TimeoutExpired:
        return None, 'timeout'
    recs = _parse(p.stdout)
    if not recs:
        return None, p.stderr[-2000:]
    return recs[-1], None


# ---------------------------------------------------------------- repo revision

def repo_rev() -> dict:
    def git(*a):
        try:
            return subprocess.run(['git', '-C', REPO_DIR, *a], capture_output=True, text=True, timeout=20).stdout.strip()
        except Exception:
            return ''
    import hashlib
    diff = git('diff', 'HEAD')
    return {'head': git('rev-parse', 'HEAD'), 'dirty_diff_sha1': hashlib.sha1(diff.encode()).hexdigest() if diff else None}


# ---------------------------------------------------------------- batch

def run_batch(prop: str, tier: str, base_seed: int, jobs: int) -> int:
    from .registry import get_check
    chk = get_check(prop)
    t_start = time.time()
    if hasattr(chk, 'run_batch'):
        return chk.run_batch(tier, base_seed, jobs)
    cases = None
    enum_info = None
    if hasattr(chk, 'enumerate_cases'):
        res, err = run_sub('_enumerate', {'prop': prop, 'tier': tier, 'base_seed': base_seed}, 0, 900)
        if res is None:
            print(f'HARNESS-ERROR property={prop} enumeration failed: {err}')
            return 2
        cases = res['cases']
        enum_info = res['info']
        if 'VERIF_RUNS' in os.environ:
            cases = cases[:int(os.environ['VERIF_RUNS'])]
    total = chk.quick_runs if tier == 'quick' else chk.thorough_runs
    total = int(os.environ.get('VERIF_RUNS', total))
    seed_offset = 0
    if cases is not None:
        # enumeration checks may add seeded (sampled) runs after their enumerated cases
        seed_offset = len(cases)
        extra = 0
        if getattr(chk, 'mixed', False):
            extra = chk.quick_runs if tier == 'quick' else chk.thorough_runs
            if 'VERIF_RUNS' in os.environ:
                extra = min(extra, int(os.environ['VERIF_RUNS']))
        total = len(cases) + extra
    chunk_per_worker = 250
    wall_cap = float(os.environ.get('VERIF_WALL_CAP', 1500 if tier == 'quick' else 7200))
    records: list[dict] = []
    harness_errors: list[str] = []
    next_idx = 0
    cross = {}     # idx -> digest, for cross-process determinism
    while next_idx < total and not harness_errors:
        round_n = min(total - next_idx, chunk_per_worker * jobs)
        idxs = list(range(next_idx, next_idx + round_n))
        next_idx += round_n
        procs = []
        for w in range(jobs):
            mine = [i for i in idxs if i % jobs == w]
            if not mine:
                continue
            job = {'prop': prop, 'tier': tier, 'base_seed': base_seed, 'recheck_every': int(os.environ.get('VERIF_RECHECK', 10)),
                   'per_run_timeout': 180, 'seed_offset': seed_offset}
            if cases is not None:
                job['cases'] = [(i, cases[i]) for i in mine if i < seed_offset]
                job['indexes'] = [i for i in mine if i >= seed_offset]
            else:
                job['indexes'] = mine
            procs.append((spawn_worker(job, w % HASH_CLASSES), mine))
        remaining = max(60.0, wall_cap - (time.time() - t_start))
        for p, mine in procs:
            recs, err = collect(p, remaining)
            if err:
                harness_errors.append(err)
            for r in recs:
                if r.get('done'):
                    continue
                if 'harness_error' in r:
                    harness_errors.append(f'run {r["idx"]}: {r["harness_error"]}')
                else:
                    records.append(r)
        if time.time() - t_start > wall_cap:
            break
    # cross-process determinism: a sample of indexes re-executed by a fresh
    # interpreter started from a batch with a different worker count
    det_checked = sum(1 for r in records if 'recheck' in r)
    det_failed = [r['idx'] for r in records if r.get('recheck') is False]
    sample_idx = [r['idx'] for r in records[:: max(1, len(records) // 24)]][:24] if records else []
    by_idx = {r['idx']: r for r in records}
    xprocs = []
    for hs in sorted({i % jobs % HASH_CLASSES for i in sample_idx}):
        mine = [i for i in sample_idx if i % jobs % HASH_CLASSES == hs]
        job = {'prop': prop, 'tier': tier, 'base_seed': base_seed, 'per_run_timeout': 180, 'seed_offset': seed_offset}
        if cases is not None:
            job['cases'] = [(i, cases[i]) for i in mine if i < seed_offset]
            job['indexes'] = [i for i in mine if i >= seed_offset]
        else:
            job['indexes'] = mine
        xprocs.append((spawn_worker(job, hs), mine))
    for p, mine in xprocs:
        recs, err = collect(p, 600)
        if err:
            harness_errors.append('cross-process determinism worker: ' + err)
        for r in recs:
            if r.get('done') or 'harness_error' in r:
                continue
            det_checked += 1
            if r['event_digest'] != by_idx[r['idx']]['event_digest']:
                det_failed.append(r['idx'])
    extra_cov = None
    if hasattr(chk, 'batch_extra') and not harness_errors:
        try:
            xvs, extra_cov = chk.batch_extra(tier)
            if xvs:
                # Real-OS probes run in real time on a shared machine.  An anomaly must reproduce in two
                # further, independent executions of the probe before it is reported (a persistent
                # defect does; a scheduling hiccup under load does not).
                confirmed = xvs
                for _ in range(2):
                    again, _cov = chk.batch_extra(tier)
                    keys = {(v['code'], json.dumps(v['sig'], sort_keys=True, default=repr)) for v in again}
                    confirmed = [v for v in confirmed if (v['code'], json.dumps(v['sig'], sort_keys=True, default=repr)) in keys]
                    if not confirmed:
                        break
                extra_cov = dict(extra_cov or {})
                extra_cov['real_probe_anomalies_not_reproduced'] = len(xvs) - len(confirmed)
                xvs = confirmed
        except Exception as ex:
            xvs = []
            harness_errors.append(f'batch_extra failed: {type(ex).__name__}: {ex}')
        if xvs:
            records.append({'idx': -1, 'violations': xvs, 'spec_digest': 'real-probe', 'sched_digest': 'real-probe',
                            'event_digest': None, 'order': [], 'nontrivial': False, 'faults': {}, 'probes': {},
                            'backend': 'real-os', 'outcome': 'probe', 'batch_extra': True})
    if enum_info is not None:
        extra_cov = dict(extra_cov or {})
        extra_cov['enumeration'] = enum_info
        n_enum = sum(1 for r in records if r.get('case') is not None)
        extra_cov['exhaustive'] = bool(enum_info.get('exhaustive')) and n_enum == len(cases) and 'VERIF_RUNS' not in os.environ
        extra_cov['enumerated_cases'] = n_enum
        extra_cov['sampled_runs'] = len(records) - n_enum
        if len(records) - n_enum > 0:
            # only the enumerated part of a mixed check is complete; the sampled part is a search
            extra_cov['exhaustive_enumerated_part'] = extra_cov['exhaustive']
            extra_cov['exhaustive'] = False
    return finish(chk, prop, tier, base_seed, jobs, records, harness_errors, det_checked, det_failed, t_start, extra_cov)


def finish(chk, prop, tier, base_seed, jobs, records, harness_errors, det_checked, det_failed, t_start,
           extra_coverage: Optional[dict] = None) -> int:
    known = load_known()
    wall = time.time() - t_start
    if det_failed:
        harness_errors.append(f'nondeterminism detected: runs {sorted(set(det_failed))[:10]} gave different event-log digests on re-execution')
    # aggregate
    faults: dict[str, int] = {}
    probes: dict[str, int] = {}
    per_backend: dict[str, int] = {}
    outcomes: dict[str, int] = {}
    distinct = set()
    scheds = set()
    orders = set()
    vtime = 0.0
    samples = []
    violations = []
    known_hits: dict[str, dict] = {}
    for r in records:
        for k, v in r.get('faults', {}).items():
            faults[k] = faults.get(k, 0) + v
        for k, v in r.get('probes', {}).items():
            probes[k] = probes.get(k, 0) + (v if isinstance(v, int) else 1)
        per_backend[r.get('backend', '?')] = per_backend.get(r.get('backend', '?'), 0) + 1
        outcomes[r.get('outcome', '?')] = outcomes.get(r.get('outcome', '?'), 0) + 1
        if r.get('nontrivial'):
            distinct.add((r['spec_digest'], r['sched_digest']))
        scheds.add(r['sched_digest'])
        orders.add(tuple(r.get('order', [])))
        vtime += r.get('vtime', 0.0)
        if 'sample' in r and len(samples) < 3:
            samples.append(r['sample'])
        for v in r.get('violations', []):
            k = match_known(v, known)
            if k is not None:
                h = known_hits.setdefault(k['id'], {'entry': k, 'count': 0, 'example': v['detail'], 'idx': r['idx']})
                h['count'] += 1
            else:
                violations.append((r['idx'], v, r))
    inconclusive = sum(1 for r in records if r.get('inconclusive'))
    if records and inconclusive > max(3, len(records) // 50):
        harness_errors.append(f'{inconclusive} of {len(records)} runs hit a simulator cap (inconclusive)')
    principal_missing = [f for f in getattr(chk, 'principal_faults', ()) if not faults.get(f)]
    if principal_missing and records:
        harness_errors.append(f'principal fault kind(s) never fired in this batch: {principal_missing}')
    expected_probes = getattr(chk, 'expected_probes', ())
    unreached = [p for p in expected_probes if not probes.get(p)]

    replay_path = None
    shrink_info = None
    overridden_harness_errors = []
    if violations:
        violations.sort(key=lambda x: x[0])
        idx, v, r = violations[0]
        hs = idx % jobs % HASH_CLASSES
        replay_path, shrink_info = make_replay(chk, prop, tier, base_seed, idx, hs, v, r)
        if harness_errors:
            # A violation that reproduces exactly (same oracle, same event-log digest) in a fresh
            # interpreter stands on its own, whatever went wrong in other runs of the batch
            # (typically: the code under test keeps state across run_tasks calls, which shows up as
            # re-execution mismatches or stale simulated-OS objects in later runs of a worker).
            if (shrink_info or {}).get('fresh_process_replay') == 'reproduced':
                overridden_harness_errors = harness_errors
                harness_errors = []
            else:
                violations_unconfirmed = len(violations)
                violations = []
                harness_errors.append(f'{violations_unconfirmed} violating run record(s) could not be confirmed by a fresh-process replay')

    coverage = {
        'evaluations': len(records),
        'distinct_nontrivial': len(distinct),
        'rule': getattr(chk, 'rule', ''),
        'samples': samples or [{'note': 'no runs completed'}],
        'runs_per_hour': int(len(records) / wall * 3600) if wall > 0 else 0,
        'seeds_per_hour': int(len(records) / wall * 3600) if wall > 0 else 0,
        'simulated_seconds': round(vtime, 1),
        'faults_fired': dict(sorted(faults.items())),
        'probes_hit': dict(sorted(probes.items())),
        'probes_unreached': unreached,
        'distinct_schedule_digests': len(scheds),
        'distinct_completion_orders': len(orders),
        'runs_per_substrate': per_backend,
        'outcomes': outcomes,
        'components': chk.components() if hasattr(chk, 'components') else {},
        'determinism_reexecutions': det_checked,
        'determinism_mismatches': len(set(det_failed)),
        'hash_seed_classes': min(jobs, HASH_CLASSES),
        'known_findings_seen': {k: {'count': h['count'], 'example': h['example'], 'first_run_index': h['idx']} for k, h in known_hits.items()},
        'exhaustive': bool(getattr(chk, 'exhaustive', False)),
        'repo': repo_rev(),
        'harness_errors': harness_errors[:5],
        'inconclusive_runs': inconclusive,
        'harness_errors_overridden_by_confirmed_violation': [h[:300] for h in overridden_harness_errors[:3]],
    }
    if violations:
        by_code: dict[str, dict] = {}
        for _idx, v, _r in violations:
            key = v['code'] + ' ' + json.dumps(v['sig'], sort_keys=True, default=repr)
            ent = by_code.setdefault(key, {'count': 0, 'first_run_index': _idx, 'example': v['detail'][:300]})
            ent['count'] += 1
        coverage['violation_classes'] = by_code
    if extra_coverage:
        coverage.update(extra_coverage)
    if shrink_info:
        coverage['minimisation'] = shrink_info
    evidence = {
        'property_id': prop,
        'tier': tier,
        'seed': base_seed,
        'level': chk.level,
        'coverage': coverage,
        'assumptions': getattr(chk, 'assumptions', [
            'stub fidelity: SimProcess/SimQueue/SimThread/signal model CPython 3.12 multiprocessing on Linux (DESIGN 10)',
            'coordinator CPU steps are instantaneous relative to the 0.5 s poll (virtual-time assumption)',
            'sampling, not proof: a clean batch is evidence',
        ]),
        'wall_s': round(wall, 2),
        'violations': len(violations),
    }
    write_evidence(prop, evidence)
    for k, h in sorted(known_hits.items()):
        print(f'KNOWN-FINDING: property={prop} {h["entry"]["id"]}: {h["entry"]["summary"]} (seen {h["count"]}x in this batch)')
    if harness_errors:
        print(f'HARNESS-ERROR property={prop} {harness_errors[0][:2000]}')
        return 2
    if violations:
        idx, v, r = violations[0]
        print(f'VIOLATION property={prop} replay={replay_path}')
        print(f'  oracle={v["code"]} run_index={idx} seed={base_seed}: {v["detail"]}')
        print(f'  ({len(violations)} violating run record(s) in this batch; first shown; replay with ./check replay {replay_path})')
        return 1
    print(f'OK property={prop} tier={tier} seed={base_seed} runs={len(records)} distinct_nontrivial={len(distinct)} '
          f'wall={wall:.1f}s')
    return 0


def write_evidence(prop: str, evidence: dict) -> None:
    # tools that run the checks against a scratch copy with a seeded change (VERIF_REPO=<scratch>) point
    # this somewhere else, so that /verif/evidence only ever describes runs against /repo itself
    d = os.environ.get('VERIF_EVIDENCE_DIR') or os.path.join(VERIF_DIR, 'evidence')
    os.makedirs(d, exist_ok=True)
    path = os.path.join(d, f'{prop}.json')
    tmp = path + '.tmp'
    with open(tmp, 'w') as f:
        json.dump(evidence, f, indent=1, default=repr, sort_keys=True)
    os.replace(tmp, path)
    try:
        import jsonschema
        with open('/root/.vp/EVIDENCE.schema.json') as f:
            schema = json.load(f)
        with open(path) as f:
            jsonschema.validate(json.load(f), schema)
    except FileNotFoundError:
        pass
    except ImportError:
        pass


def make_replay(chk, prop, tier, base_seed, idx, hashseed, v, r):
    os.makedirs(os.path.join(VERIF_DIR, 'replays'), exist_ok=True)
    path = os.path.join(VERIF_DIR, 'replays', f'{prop}-{base_seed}-{idx}.json')
    draws = r.get('draws')
    info = {'minimised': False}
    rec = r
    if r.get('case') is not None:
        data = {'property': prop, 'tier': tier, 'seed': base_seed, 'run_index': idx, 'pythonhashseed': hashseed,
                'kind': 'case', 'case': r['case'], 'draws': None,
                'violation': {'code': v['code'], 'sig': v['sig'], 'detail': v['detail']},
                'event_digest': r.get('event_digest'), 'spec': (r.get('sample') or {}).get('spec'),
                'trace': {'faults': r.get('faults'), 'outcome': r.get('outcome')}, 'repo': repo_rev(),
                'note': 'single-fault enumeration case: already minimal (one task, one fault)'}
        with open(path, 'w') as f:
            json.dump(data, f, indent=1, default=repr)
        res, err = run_sub('_replay', {'path': path}, hashseed, 240)
        return path, {'minimised': False, 'reason': 'enumeration case is already minimal',
                      'fresh_process_replay': (res or {}).get('status', err)}
    if r.get('batch_extra'):
        data = {'property': prop, 'tier': tier, 'seed': base_seed, 'run_index': -1, 'pythonhashseed': 0,
                'kind': 'batch_extra', 'draws': None,
                'violation': {'code': v['code'], 'sig': v['sig'], 'detail': v['detail']},
                'event_digest': None, 'repo': repo_rev(),
                'note': 'real-OS probe scenario (fixed matrix); replay re-runs the probe'}
        with open(path, 'w') as f:
            json.dump(data, f, indent=1, default=repr)
        return path, {'minimised': False, 'reason': 'fixed real-OS probe scenario'}
    if draws is not None:
        job = {'prop': prop, 'tier': tier, 'draws': draws, 'target': {'code': v['code'], 'sig': v['sig']},
               'budget_runs': 300, 'budget_s': 60}
        res, err = run_sub('_shrink', job, hashseed, 240)
        if res and res.get('ok'):
            n0 = sum(len(x) for x in draws.values())
            draws = res['draws']
            n1 = sum(len(x) for x in draws.values())
            rec = res['record'] or r
            info = {'minimised': True, 'draws_before': n0, 'draws_after': n1, 'executions': res['executions']}
            v = rec.get('hit', v)
        else:
            info = {'minimised': False, 'reason': (res or {}).get('reason', err)}
    data = {
        'property': prop,
        'tier': tier,
        'seed': base_seed,
        'run_index': idx,
        'pythonhashseed': hashseed,
        'draws': draws,
        'violation': {'code': v['code'], 'sig': v['sig'], 'detail': v['detail']},
        'event_digest': rec.get('event_digest'),
        'spec': (rec.get('sample') or {}).get('spec'),
        'trace': {'completion_order': rec.get('order'), 'faults': rec.get('faults'), 'outcome': rec.get('outcome')},
        'repo': repo_rev(),
    }
    with open(path, 'w') as f:
        json.dump(data, f, indent=1, default=repr)
    # replay in a fresh process: it must fail the same way
    res, err = run_sub('_replay', {'path': path}, hashseed, 240)
    info['fresh_process_replay'] = (res or {}).get('status', err)
    return path, info


def replay_main() -> int:
    job = json.loads(sys.stdin.read())
    with open(job['path']) as f:
        data = json.load(f)
    from .registry import get_check
    from .choices import Choices
    chk = get_check(data['property'])
    workdir = tempfile.mkdtemp(prefix='simlab-replay-', dir=scratch_root())
    real_stdout = os.fdopen(os.dup(1), 'w')
    sys.stdout = open(os.devnull, 'w')
    try:
        if data.get('kind') == 'batch_extra':
            xvs, _cov = chk.batch_extra(data['tier'])
            rec = {'violations': xvs, 'event_digest': None}
        elif data.get('kind') == 'case':
            rec = chk.run_case(data['case'], workdir, data['tier'])
        elif hasattr(chk, 'replay'):
            rec = chk.replay(data, workdir)
        else:
            rec = chk.run(Choices(replay=data['draws']), workdir, data['tier'])
    finally:
        shutil.rmtree(workdir, ignore_errors=True)
    hit = [v for v in rec['violations'] if v['code'] == data['violation']['code']]
    same_digest = rec.get('event_digest') == data.get('event_digest')
    status = 'reproduced' if hit and same_digest else ('reproduced-different-trace' if hit else 'not-reproduced')
    real_stdout.write(json.dumps({'status': status, 'violations': rec['violations'], 'event_digest': rec.get('event_digest')},
                                 default=repr) + '\n')
    real_stdout.flush()
    return 0


def replay_cmd(path: str) -> int:
    with open(path) as f:
        data = json.load(f)
    res, err = run_sub('_replay', {'path': os.path.abspath(path)}, data.get('pythonhashseed', 0), 600)
    if res is None:
        print(f'HARNESS-ERROR replay failed to run: {err}')
        return 2
    print(f'replay of {path}: {res["status"]}')
    for v in res.get('violations', []):
        print(f'  {v["prop"]}/{v["code"]}: {v["detail"]}')
    if res['status'] == 'reproduced':
        print(f'VIOLATION property={data["property"]} replay={path}')
        return 1
    if res['status'] == 'reproduced-different-trace':
        print('HARNESS-ERROR the violation reproduces but the event-log digest differs')
        return 2
    return 0


def mkreplay_cmd(prop: str, tier: str, idx: int, code: Optional[str] = None) -> int:
    """Re-run one run index of a batch and write its (minimised) replay file."""
    from .registry import get_check
    chk = get_check(prop)
    base_seed = int(os.environ.get('VERIF_SEED', DEFAULT_SEED))
    jobs = int(os.environ.get('VERIF_JOBS', 16))
    hs = idx % jobs % HASH_CLASSES
    job = {'prop': prop, 'tier': tier, 'base_seed': base_seed, 'per_run_timeout': 180, 'want_draws': True}
    if hasattr(chk, 'enumerate_cases'):
        res, err = run_sub('_enumerate', {'prop': prop, 'tier': tier, 'base_seed': base_seed}, 0, 900)
        cases = res['cases']
        job['seed_offset'] = len(cases)
        if idx < len(cases):
            job['cases'] = [(idx, cases[idx])]
        else:
            job['indexes'] = [idx]
    else:
        job['indexes'] = [idx]
    recs, err = collect(spawn_worker(job, hs), 600)
    recs = [r for r in recs if not r.get('done')]
    if err or not recs or 'harness_error' in recs[0]:
        print('HARNESS-ERROR', err or recs)
        return 2
    r = recs[0]
    known = load_known()
    vs = [v for v in r['violations'] if (code is None or v['code'] == code)]
    if not vs:
        print(f'run {idx} of {prop} has no violation' + (f' with code {code}' if code else ''), [v['code'] for v in r['violations']])
        return 0
    path, info = make_replay(chk, prop, tier, base_seed, idx, hs, vs[0], r)
    print(f'wrote {path}: {vs[0]["code"]}: {vs[0]["detail"][:300]}')
    print(info)
    return 1


def main(argv) -> int:
    if len(argv) >= 5 and argv[1] == 'mkreplay':
        return mkreplay_cmd(argv[2], argv[3], int(argv[4]), argv[5] if len(argv) > 5 else None)
    if len(argv) >= 2 and argv[1] == '_worker':
        return worker_main()
    if len(argv) >= 2 and argv[1] == '_shrink':
        return shrink_main()
    if len(argv) >= 2 and argv[1] == '_phase2':
        from .props import phase2_main
        return phase2_main()
    if len(argv) >= 2 and argv[1] == '_enumerate':
        return enumerate_main()
    if len(argv) >= 2 and argv[1] == '_replay':
        return replay_main()
    if len(argv) >= 3 and argv[1] == 'replay':
        return replay_cmd(argv[2])
    if len(argv) >= 3 and argv[1] == 'selftest':
        from . import selftest
        return selftest.main(argv[2:])
    if len(argv) >= 2 and argv[1] == '_smoke':
        from . import selftest
        return selftest.smoke()
    if len(argv) >= 2 and argv[1] == 'setup':
        from . import selftest
        return selftest.setup()
    if len(argv) < 3:
        print('usage: ./check <ID> quick|thorough | replay <file> | selftest determinism|sensitivity | setup')
        return 2
    prop, tier = argv[1], argv[2]
    tier = os.environ.get('VERIF_TIER', tier) if tier not in ('quick', 'thorough') else tier
    base_seed = int(os.environ.get('VERIF_SEED', DEFAULT_SEED))
    jobs = int(os.environ.get('VERIF_JOBS', 16))
    try:
        return run_batch(prop, tier, base_seed, jobs)
    except Exception as ex:
        print(f'HARNESS-ERROR property={prop} {type(ex).__name__}: {ex}')
        traceback.print_exc()
        return 2
