"""LINE-event and check-point service on top of sys.monitoring (PEP 669, Python 3.12).

Check points are the instants at which CPython 3.12 can raise an asynchronous exception
(KeyboardInterrupt from a signal) in Python code: the eval loop looks at pending signals only on
function entry (RESUME), on backward jumps and after a call of a C function has returned - never
at an arbitrary line start.  In particular it cannot raise at the NOP of a `try:` line (which no
exception-table entry covers: an exception injected there would skip every enclosing handler and
`finally`) nor on an `except X as e:` header.  Seen from labtech's code they are: entry of a labtech
function (PY_START), a backward JUMP, C_RETURN of a C call made by labtech code, and the CALL of a
Python function that is not labtech's own (the check happens at that function's entry; the exception
surfaces at this call).

One global callback; events outside labtech's own source files are disabled at
their location after the first hit.  A per-run handler decides what a line
boundary means: a scheduler yield point (simulated workers), an interrupt
instant (main thread), an exception-injection point (C12), or nothing.

Unlike sys.settrace, a callback that raises stays armed, so a second and third
interrupt can be delivered in the same run.
"""
from __future__ import annotations

import os
import sys
import threading

from . import REPO_DIR

TOOL_ID = 3
_installed = False
_handler = None
_cp_handler = None
_labtech_dir = None
_nop_lines: dict = {}
_loop_pending: set = set()
_file_cache: dict[str, bool] = {}


def _is_labtech(filename: str) -> bool:
    r = _file_cache.get(filename)
    if r is None:
        r = filename.startswith(_labtech_dir)
        _file_cache[filename] = r
    return r


def _callback(code, line):
    if not _is_labtech(code.co_filename):
        return sys.monitoring.DISABLE
    if _loop_pending:
        key = (threading.get_ident(), code)
        if key in _loop_pending:
            # the check point of a loop's back-edge, delivered at the loop header it jumped to (an exception
            # raised from a JUMP callback itself is not seen by any handler or finally - a CPython 3.12 quirk)
            _loop_pending.discard(key)
            c = _cp_handler
            if c is not None:
                c(code, 'loop')
    h = _handler
    if h is None:
        return None
    return h(code, line)


def _cb_start(code, offset):
    if not _is_labtech(code.co_filename):
        return sys.monitoring.DISABLE
    h = _cp_handler
    if h is not None:
        return h(code, 'entry')
    return None


def _cb_jump(code, offset, dest):
    if not _is_labtech(code.co_filename):
        return sys.monitoring.DISABLE
    if _cp_handler is not None and dest < offset:
        _loop_pending.add((threading.get_ident(), code))
    return None


_C_TYPES = None


def _is_c_callable(f) -> bool:
    global _C_TYPES
    if _C_TYPES is None:
        import types
        _C_TYPES = (types.BuiltinFunctionType, types.BuiltinMethodType, types.MethodDescriptorType, types.WrapperDescriptorType,
                    types.MethodWrapperType, types.ClassMethodDescriptorType)
    return isinstance(f, _C_TYPES)


def _cb_call(code, offset, func, arg0):
    if not _is_labtech(code.co_filename):
        return sys.monitoring.DISABLE
    h = _cp_handler
    if h is None or _is_c_callable(func):
        return None          # C callee: the check point is its return (C_RETURN)
    c = getattr(func, '__code__', None)
    if c is None:
        f2 = getattr(func, '__func__', None)
        c = getattr(f2, '__code__', None)
    if c is not None and _is_labtech(c.co_filename):
        return None          # labtech callee: its own entry is the check point
    return h(code, 'call')


def _cb_c_return(code, offset, func, arg0):
    if not _is_labtech(code.co_filename):
        return None
    h = _cp_handler
    if h is not None:
        return h(code, 'c-return')
    return None


def starts_with_nop(code, line: int) -> bool:
    """Is the first instruction of this line a NOP (`try:` and the like)?  No exception can be raised
    there, and no exception-table entry covers it."""
    key = (code, line)
    r = _nop_lines.get(key)
    if r is None:
        import dis
        r = False
        for ins in dis.get_instructions(code):
            if ins.starts_line == line:
                r = ins.opname == 'NOP'
                break
        _nop_lines[key] = r
    return r


def install() -> None:
    global _installed, _labtech_dir
    if _installed:
        return
    import labtech
    _labtech_dir = os.path.dirname(os.path.abspath(labtech.__file__)) + os.sep
    mon = sys.monitoring
    mon.use_tool_id(TOOL_ID, 'simlab')
    mon.register_callback(TOOL_ID, mon.events.LINE, _callback)
    mon.register_callback(TOOL_ID, mon.events.PY_START, _cb_start)
    mon.register_callback(TOOL_ID, mon.events.JUMP, _cb_jump)
    mon.register_callback(TOOL_ID, mon.events.CALL, _cb_call)
    mon.register_callback(TOOL_ID, mon.events.C_RETURN, _cb_c_return)
    _installed = True


def labtech_dir() -> str:
    install()
    return _labtech_dir


def start(handler, cp_handler=None) -> None:
    """Arm LINE events with handler(code, line) and, if given, check-point events with
    cp_handler(code, kind)."""
    global _handler, _cp_handler
    install()
    _handler = handler
    _cp_handler = cp_handler
    ev = sys.monitoring.events
    mask = ev.LINE
    if cp_handler is not None:
        mask |= ev.PY_START | ev.JUMP | ev.CALL
    sys.monitoring.set_events(TOOL_ID, mask)
    if cp_handler is not None:
        # locations disabled by an earlier run (another handler set) must be seen again
        sys.monitoring.restart_events()


def stop() -> None:
    global _handler, _cp_handler
    _handler = None
    _cp_handler = None
    _loop_pending.clear()
    if _installed:
        sys.monitoring.set_events(TOOL_ID, 0)


def short(filename: str) -> str:
    return filename[len(_labtech_dir):] if _labtech_dir and filename.startswith(_labtech_dir) else filename
