"""LINE-event service on top of sys.monitoring (PEP 669, Python 3.12).

One global callback; events outside labtech's own source files are disabled at
their location after the first hit.  A per-run handler decides what a line
boundary means: a scheduler yield point (simulated workers), an interrupt
instant (main thread), an exception-injection point (C12), or nothing.

Unlike sys.settrace, a callback that raises stays armed, so a second and third
interrupt can be delivered in the same run.
"""
from __future__ import annotations

import os
import sys

from . import REPO_DIR

TOOL_ID = 3
_installed = False
_handler = None
_labtech_dir = None
_file_cache: dict[str, bool] = {}


def _is_labtech(filename: str) -> bool:
    r = _file_cache.get(filename)
    if r is None:
        r = filename.startswith(_labtech_dir)
        _file_cache[filename] = r
    return r


def _callback(code, line):
    if not _is_labtech(code.co_filename):
        return sys.monitoring.DISABLE
    h = _handler
    if h is None:
        return None
    return h(code, line)


def install() -> None:
    global _installed, _labtech_dir
    if _installed:
        return
    import labtech
    _labtech_dir = os.path.dirname(os.path.abspath(labtech.__file__)) + os.sep
    mon = sys.monitoring
    mon.use_tool_id(TOOL_ID, 'simlab')
    mon.register_callback(TOOL_ID, mon.events.LINE, _callback)
    _installed = True


def labtech_dir() -> str:
    install()
    return _labtech_dir


def start(handler) -> None:
    """Arm LINE events with the given handler(code, line)."""
    global _handler
    install()
    _handler = handler
    sys.monitoring.set_events(TOOL_ID, sys.monitoring.events.LINE)


def stop() -> None:
    global _handler
    _handler = None
    if _installed:
        sys.monitoring.set_events(TOOL_ID, 0)


def short(filename: str) -> str:
    return filename[len(_labtech_dir):] if _labtech_dir and filename.startswith(_labtech_dir) else filename
