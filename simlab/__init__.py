"""simlab - deterministic simulation with fault injection for labtech.

See /verif/DESIGN.md.  Nothing in this package is imported by labtech; it
drives labtech through its public seams (Runner / RunnerBackend / Storage ABCs
and module attributes of labtech.runners.*).
"""
import os
import sys

VERIF_DIR = os.path.dirname(os.path.dirname(os.path.abspath(__file__)))
REPO_DIR = os.environ.get('VERIF_REPO', '/repo')


def ensure_repo_on_path() -> None:
    """Checks always execute the current working tree of VERIF_REPO."""
    if sys.path[0:1] != [REPO_DIR]:
        if REPO_DIR in sys.path:
            sys.path.remove(REPO_DIR)
        sys.path.insert(0, REPO_DIR)


ensure_repo_on_path()
