"""Pass-through spy RunnerBackend around the runner under test.  Uses only the
public Runner methods; records every call across the Runner seam and performs
the result-retention observations of C17 (get_result probes are pure reads).
"""
from __future__ import annotations

from typing import Iterator, Optional, Sequence

from labtech.types import LabContext, ResultMeta, Runner, RunnerBackend, Storage, Task, TaskMonitorInfo, TaskResult


class SpyRunner(Runner):

    def __init__(self, inner: Runner, rec, retention=None):
        self.inner = inner
        self.rec = rec
        self.retention = retention     # RetentionObserver or None
        if retention is not None:
            retention.spy = self
        self.idle_waits = 0

    def submit_task(self, task: Task, task_name: str, use_cache: bool) -> None:
        self.idle_waits = 0
        self.rec.ev('submit', task.ident, bool(use_cache), task_name)
        return self.inner.submit_task(task, task_name, use_cache)

    def wait(self, *, timeout_seconds: Optional[float]) -> Iterator[tuple[Task, ResultMeta | BaseException]]:
        self.rec.ev('wait-enter')
        # the coordinator keeps polling although nothing is submitted, running or queued: a spin
        # (bounded here so that a hang of the serial backend is a verdict, not a wall-clock kill)
        if self.inner.pending_task_count() == 0:
            self.idle_waits += 1
            if self.idle_waits > 25:
                from .sim import SimAbort
                raise SimAbort('spin', f'{self.idle_waits} consecutive wait() calls with nothing submitted or in flight')
        else:
            self.idle_waits = 0
        gen = self.inner.wait(timeout_seconds=timeout_seconds)
        count = 0
        try:
            for task, res in gen:
                ok = isinstance(res, ResultMeta)
                if self.retention is not None:
                    self.retention.before_handover(self, task, ok)
                self.rec.ev('complete', task.ident, 'ok' if ok else type(res).__name__)
                count += 1
                yield (task, res)
                if self.retention is not None:
                    self.retention.after_processed(self, task, ok)
        finally:
            if hasattr(gen, 'close'):
                gen.close()
            self.rec.ev('wait-leave', count)

    def cancel(self) -> None:
        self.rec.ev('cancel')
        return self.inner.cancel()

    def stop(self) -> None:
        self.rec.ev('stop')
        return self.inner.stop()

    def close(self) -> None:
        self.rec.ev('close')
        return self.inner.close()

    def pending_task_count(self) -> int:
        return self.inner.pending_task_count()

    def get_result(self, task: Task) -> TaskResult:
        self.rec.ev('get_result', task.ident)
        return self.inner.get_result(task)

    def remove_results(self, tasks: Sequence[Task]) -> None:
        self.rec.ev('remove', [t.ident for t in tasks])
        return self.inner.remove_results(tasks)

    def get_task_infos(self) -> list[TaskMonitorInfo]:
        return self.inner.get_task_infos()


class SpyBackend(RunnerBackend):

    def __init__(self, inner: RunnerBackend, rec, retention=None):
        self.inner = inner
        self.rec = rec
        self.retention = retention
        self.runner: Optional[SpyRunner] = None

    def build_runner(self, *, context: LabContext, storage: Storage, max_workers: Optional[int]) -> SpyRunner:
        inner = self.inner.build_runner(context=context, storage=storage, max_workers=max_workers)
        self.runner = SpyRunner(inner, self.rec, self.retention)
        return self.runner
