"""C12 (a failed save leaves nothing that looks cached) and C13 (a kill in the
middle of a save cannot poison the cache): single-fault enumeration.

For every configuration a fault-free reference execution records the ordered
list of injection points of the save; then there is one run per point.
"""
from __future__ import annotations

import gc
import shutil
import tempfile

import labtech

from . import oracles as O
from . import probe as probe_mod
from .choices import Choices
from .execute import Rec, _LoadProbe, execute, probe_load, quiet_logger, restore_logger
from .props import Check, compact_spec, result_record
from .spec import Built, Ref, base_context
from .tasklib import get_type


def save_scenario(cfg: dict) -> dict:
    sc = {
        'nodes': [{'id': 0, 'type': cfg['tname'], 'tag': 'a', 'deps': ['t', []], 'opt': ['s', 'none', None]}],
        'requested': [[0, 0]],
        'backend': cfg.get('backend', 'serial'),
        'max_workers': 1,
        'cpu_count': 1,
        'cof': True,
        'shapes': {'0': cfg['shape']},
        'gen_pre': 0,
        'gen_main': 1,
        'observe_after': False,
        'swarm': {'w_coord': 2, 'w_worker': 6, 'w_timeout': 1, 'gate_mode': 'free'},
    }
    if cfg['mode'] == 'overwrite':
        sc['cached'] = [0]
        sc['bust_cache'] = True
    # a recursive delete issued during the save is file-by-file (both directory orders are covered)
    sc['delete_order'] = 'reverse' if cfg['shape'] == 'big' else 'sorted'
    return sc


def cache_state_violations(prop: str, sc: dict, storage_dir: str, cfg: dict, where: dict) -> list:
    """Public observations by a new Lab over the storage, after the fault."""
    gc.collect()     # handles abandoned by an exception / a dead worker are finalised first
    ref = Ref(sc)
    new_v = ref.value_of(0, base_context(1), [], shape=cfg['shape'] if cfg['shape'] != 'unpicklable' else 'small')
    old_v = ref.value_of(0, base_context(0), [], shape='small')
    acceptable = [new_v] + ([old_v] if cfg['mode'] == 'overwrite' else [])
    built = Built({**sc, 'requested': []})
    t = built.get(0, 1)
    rec = Rec()
    saved = quiet_logger(rec)
    try:
        lab = labtech.Lab(storage=storage_dir, notebook=False, runner_backend='serial')
        try:
            cached = bool(lab.is_cached(t))
        except Exception as ex:
            return [O.V(prop, 'is_cached-raises', f'is_cached raised {type(ex).__name__}: {ex}', mode=cfg['mode'], **where)]
        try:
            listed = [x for x in lab.cached_tasks([get_type(cfg['tname'])]) if x == t]
        except Exception as ex:
            return [O.V(prop, 'cached_tasks-raises', f'after the fault cached_tasks raised {type(ex).__name__}: {str(ex)[:120]}',
                        mode=cfg['mode'], **where)]
    finally:
        restore_logger(saved)
    if not cached and not listed:
        return []
    r = probe_load(sc, storage_dir, 0, base_context(1))
    state = f'is_cached={cached} cached_tasks lists it={bool(listed)}'
    if r[0] == 'error':
        return [O.V(prop, 'cached-but-unloadable', f'{state}, but a later run fails: {r[1]["type"]} caused by {r[1]["cause"]}: '
                    f'{r[1]["msg"][:140]}', mode=cfg['mode'], **where)]
    if r[0] == 'loaded':
        if r[1] not in acceptable:
            return [O.V(prop, 'cached-wrong-value', f'{state}; a later run loads {r[1]!r}, acceptable: {acceptable!r}',
                        mode=cfg['mode'], **where)]
        return []
    if cached:
        return [O.V(prop, 'cached-but-executed', f'{state}, yet a later run executed the task instead of loading it',
                    mode=cfg['mode'], **where)]
    return []


def same_lab_violations(prop: str, sc: dict, session: dict, out, cfg: dict, where: dict) -> list:
    """The same observations through the very Lab, Storage and task objects that performed the failed
    save (what a user sees who carries on in the same session)."""
    lab = session.get('lab')
    if lab is None or out.built is None:
        return []
    t = out.built.requested[0]
    rec = Rec()
    saved = quiet_logger(rec)
    try:
        try:
            cached = bool(lab.is_cached(t))
            listed = [x for x in lab.cached_tasks([get_type(cfg['tname'])]) if x == t]
        except Exception as ex:
            return [O.V(prop, 'same-lab-observe-raises', f'in the same session: is_cached / cached_tasks raised {type(ex).__name__}: '
                        f'{str(ex)[:120]}', mode=cfg['mode'], **where)]
        if not cached and not listed:
            return []
        lp = _LoadProbe()
        old = probe_mod.ACTIVE
        probe_mod.set_active(lp)
        try:
            lab.continue_on_failure = False
            from labtech.runners import SerialRunnerBackend
            lab.runner_backend = SerialRunnerBackend()      # outside the simulation only the serial backend may be used
            try:
                lab.run_task(t, disable_progress=True, disable_top=True)
            except BaseException as ex:
                return [O.V(prop, 'cached-but-unloadable', f'in the same session (same Lab / storage / cache objects): is_cached={cached} '
                            f'cached_tasks lists it={bool(listed)}, but running the task fails: {type(ex).__name__}: {str(ex)[:120]}',
                            mode=cfg['mode'], same_session=True, **where)]
        finally:
            probe_mod.set_active(old)
    finally:
        restore_logger(saved)
    return []


class EnumCheck(Check):
    level = 'fault_enumeration'
    exhaustive = True
    configs_quick: list = []
    configs_thorough: list = []

    def configs(self, tier):
        return self.configs_quick if tier == 'quick' else self.configs_thorough

    def record_case(self, sc, out, vs, case, fired: bool):
        r = result_record(self.id, sc, out, vs, None)
        r['nontrivial'] = bool(fired)
        r['spec_digest'] = O.digest_of_case(case)
        r['sample'] = {'case': case, 'outcome': r['outcome'], 'faults': r['faults']}
        return r


# ---------------------------------------------------------------- C12

class C12(EnumCheck):
    id = 'C12'
    principal_faults = ('io-error', 'line-exception')
    rule = ('one run per injection point of the save (each storage call, each write/flush/close on the returned handles, a torn '
            'variant of each write, each executed line of the save path) per configuration (cache format x result shape x '
            'first save / overwrite x substrate); distinct = distinct (configuration, point); non-trivial = the injected fault actually fired')

    configs_quick = [{'tname': t, 'shape': s, 'mode': m, 'backend': 'serial'}
                     for t in ('TA', 'TD') for s in ('small', 'big', 'unpicklable') for m in ('first', 'overwrite')]
    configs_thorough = [{'tname': t, 'shape': s, 'mode': m, 'backend': b}
                        for b in ('serial', 'sim', 'fork', 'spawn')
                        for t in ('TA', 'TD') for s in ('small', 'big', 'unpicklable') for m in ('first', 'overwrite')]

    def enumerate_cases(self, tier, base_seed, workdir):
        cases = []
        per_config = []
        for cfg in self.configs(tier):
            sc = save_scenario(cfg)
            sc['io_count_only'] = True
            sc['count_lines'] = True
            d = tempfile.mkdtemp(dir=workdir)
            try:
                out = execute(sc, Choices(seed=f'{base_seed}:c12ref'), d)
            finally:
                shutil.rmtree(d, ignore_errors=True)
            n_ops = len(out.window_ops)
            n_lines = len(out.window_lines)
            cases.append({'cfg': cfg, 'fault': {'kind': 'none'}})
            for idx, label in out.window_ops:
                for errno_name in ('EIO',):
                    cases.append({'cfg': cfg, 'fault': {'kind': 'io', 'index': idx, 'errno': errno_name, 'label': label}})
                if label.startswith('f.write'):
                    cases.append({'cfg': cfg, 'fault': {'kind': 'io', 'index': idx, 'errno': 'ENOSPC', 'torn': True, 'label': label}})
            for idx, fn, line in out.window_lines:
                cases.append({'cfg': cfg, 'fault': {'kind': 'line', 'index': idx, 'at': f'{fn}:{line}'}})
            per_config.append({'cfg': cfg, 'io_points': n_ops, 'line_points': n_lines})
        return cases, {'exhaustive': True, 'configurations': len(per_config), 'per_configuration': per_config,
                       'what': 'every injection point of the fault-free reference execution of each configuration'}

    def run_case(self, case, workdir, tier):
        cfg = case['cfg']
        sc = save_scenario(cfg)
        f = case['fault']
        if f['kind'] == 'io':
            sc['io_fault'] = {'index': f['index'], 'errno': f['errno'], 'torn': bool(f.get('torn'))}
        elif f['kind'] == 'line':
            sc['inject_line'] = {'index': f['index']}
        d = tempfile.mkdtemp(dir=workdir)
        session: dict = {}
        try:
            built = None
            if cfg['mode'] == 'overwrite':
                # the session first sees the existing entry (a cache hit through the same Lab / storage / cache
                # objects), then re-executes it with bust_cache and the save fails
                sc0 = {k: v for k, v in sc.items() if k not in ('bust_cache', 'io_fault', 'inject_line')}
                out0 = execute(sc0, Choices(seed='c12hit'), d, session=session)
                built = out0.built
                sc = dict(sc)
                sc['skip_warm'] = True
            out = execute(sc, Choices(seed='c12'), d, built=built, session=session)
            fired = bool(out.fault_counts.get('io-error') or out.fault_counts.get('line-exception'))
            intrinsic = cfg['shape'] == 'unpicklable'
            where = {'fault': f['kind'] if f['kind'] != 'none' else ('unpicklable-result' if intrinsic else 'none')}
            vs = []
            statuses = [e[2] for e in out.events if e[0] == 'complete' and e[1] == 0]
            reported_failed = (out.kind != 'return') or (statuses and statuses[-1] != 'ok') or (0 not in [n for n, _ in out.returned])
            if f['kind'] != 'none' and not fired:
                raise RuntimeError(f'injection point {f} was not reached (reference execution and this run disagree)')
            if (fired or intrinsic) and not reported_failed:
                vs.append(O.V('C12', 'failure-swallowed', f'the save failed ({f}) but the task was reported as successful',
                              mode=cfg['mode'], **where))
            if out.kind == 'abort':
                vs.append(O.V('C12', 'no-termination', f'{out.abort}: {out.abort_detail[:200]}', **where))
            if not fired and not intrinsic:
                # fault-free control: must be cached and loadable
                ctl = cache_state_violations('C12', sc, d, cfg, where)
                if ctl:
                    vs += ctl
                elif not O.observe_is_cached(sc, d, 0):
                    vs.append(O.V('C12', 'control-not-cached', 'fault-free control run did not cache the task'))
            else:
                vs += cache_state_violations('C12', sc, d, cfg, where)
                if not vs:
                    vs += same_lab_violations('C12', sc, session, out, cfg, where)
        finally:
            st = session.get('sim_storage')
            if st is not None:
                st.release()
            shutil.rmtree(d, ignore_errors=True)
        return self.record_case(sc, out, vs, case, fired or intrinsic)


# ---------------------------------------------------------------- C13

class C13(EnumCheck):
    id = 'C13'
    principal_faults = ('kill:kill',)
    rule = ('one run per kill point of the worker between run() returning and its result being queued (every storage call, every '
            'write/flush/close boundary, every line boundary of the save path, a split inside every write larger than a page), each with '
            'user-space buffers lost and flushed first, per configuration (start method x cache format x result shape x first save / '
            'overwrite); distinct = distinct (configuration, kill point, variant); non-trivial = the kill actually fired')

    configs_quick = [{'tname': t, 'shape': s, 'mode': m, 'backend': b}
                     for b in ('fork', 'spawn') for t in ('TA', 'TD') for s in ('small', 'big') for m in ('first', 'overwrite')
                     if not (b == 'spawn' and t == 'TD')]
    configs_thorough = [{'tname': t, 'shape': s, 'mode': m, 'backend': b}
                        for b in ('fork', 'spawn') for t in ('TA', 'TD') for s in ('small', 'medium', 'big')
                        for m in ('first', 'overwrite')]

    def scenario(self, cfg):
        sc = save_scenario(cfg)
        sc['line_yield'] = 'save'
        sc['split_threshold'] = 4096
        return sc

    def enumerate_cases(self, tier, base_seed, workdir):
        cases = []
        per_config = []
        for cfg in self.configs(tier):
            sc = self.scenario(cfg)
            d = tempfile.mkdtemp(dir=workdir)
            try:
                out = execute(sc, Choices(seed='c13'), d)
            finally:
                shutil.rmtree(d, ignore_errors=True)
            steps = [e[2] for e in out.events if e[0] == 'save-steps']
            if not steps:
                raise RuntimeError(f'reference execution of {cfg} did not reach the end of its save: {out.kind} {out.abort} {out.exc}')
            n = steps[0]
            for k in range(n):
                for flush in (False, True):
                    cases.append({'cfg': cfg, 'kill': {'k': k, 'flush': flush}})
            per_config.append({'cfg': cfg, 'kill_points': n})
        return cases, {'exhaustive': True, 'configurations': len(per_config), 'per_configuration': per_config,
                       'what': 'every yield point of the worker in its save phase in the reference execution of each configuration'}

    def run_case(self, case, workdir, tier):
        cfg = case['cfg']
        sc = self.scenario(cfg)
        k = case['kill']
        sc['kills'] = [{'node': 0, 'phase': 'save', 'k': k['k'], 'how': k.get('how', 'kill'), 'flush': k['flush']}]
        d = tempfile.mkdtemp(dir=workdir)
        try:
            out = execute(sc, Choices(seed='c13'), d)
            fired = bool(out.fault_counts.get('kill:kill') or out.fault_counts.get('kill:terminate'))
            if not fired:
                raise RuntimeError(f'kill point {k} was not reached (reference execution and this run disagree)')
            at = [e for e in out.events if e[0] == 'fault' and e[1] == 'kill']
            where = {'fault': 'kill'}
            vs = []
            if out.kind == 'abort':
                vs.append(O.V('C13', 'no-termination', f'{out.abort}: {out.abort_detail[:200]}', **where))
            vs += cache_state_violations('C13', sc, d, cfg, where)
            for v in vs:
                v['detail'] += f' [killed at save step {k["k"]} ({at[0][6] if at else "?"}), buffers {"flushed" if k["flush"] else "lost"}]'
        finally:
            shutil.rmtree(d, ignore_errors=True)
        return self.record_case(sc, out, vs, case, fired)


def _c13_batch_extra(self, tier):
    """S3: a real forked worker is killed with SIGKILL at the k-th file operation of its save
    (simlab/realkill.py); validates the lost-buffer model of the simulated kill against the real OS."""
    import json
    import os
    import subprocess
    import sys
    from . import REPO_DIR, VERIF_DIR
    from .driver import scratch_root
    vs = []
    samples = []
    n = 0
    ks = [0, 1, 2, 3, 5, 8, 13, 21, 34, 50] if tier == 'quick' else list(range(0, 62))
    env = dict(os.environ)
    env['PYTHONPATH'] = REPO_DIR
    jobs = [(mode, k) for mode in ('first', 'overwrite') for k in ks]
    procs = []
    for mode, k in jobs:
        d = tempfile.mkdtemp(prefix='simlab-c13real-', dir=scratch_root())
        p = subprocess.Popen([sys.executable, os.path.join(VERIF_DIR, 'simlab', 'realkill.py'), d, mode, str(k)],
                             stdout=subprocess.PIPE, stderr=subprocess.DEVNULL, text=True, env=env)
        procs.append((mode, k, d, p))
        if len(procs) >= 8:
            n += _c13_collect(procs, vs, samples)
            procs = []
    n += _c13_collect(procs, vs, samples)
    return vs, {'real_kill_runs': n, 'real_kill_samples': samples[:3]}


def _c13_collect(procs, vs, samples) -> int:
    import json
    import subprocess
    n = 0
    for mode, k, d, p in procs:
        try:
            out, _ = p.communicate(timeout=120)
        except subprocess.TimeoutExpired:
            p.kill()
            vs.append(O.V('C13', 'real-probe-timeout', f'real kill probe mode={mode} k={k} did not finish', mode=mode))
            shutil.rmtree(d, ignore_errors=True)
            continue
        shutil.rmtree(d, ignore_errors=True)
        line = [x for x in out.splitlines() if x.startswith('KILLPROBE ')]
        if not line:
            vs.append(O.V('C13', 'real-probe-failed', f'real kill probe mode={mode} k={k} gave no result', mode=mode))
            continue
        n += 1
        info = json.loads(line[0][10:])
        if len(samples) < 3 and info.get('worker_died'):
            samples.append(info)
        where = f'real fork worker killed (SIGKILL) at file operation {k} of its save, {mode}'
        if 'observe_error' in info:
            vs.append(O.V('C13', 'real-observe-raises', f'{where}: is_cached/cached_tasks raised {info["observe_error"]}', mode=mode, fault='kill'))
        elif info.get('is_cached') or info.get('listed'):
            if 'later_run_error' in info:
                vs.append(O.V('C13', 'real-cached-but-unloadable', f'{where}: is_cached={info.get("is_cached")} listed={info.get("listed")} '
                              f'but a later run fails: {info["later_run_error"]}', mode=mode, fault='kill'))
            else:
                lr = info['later_run']
                ok_gens = (0, 1) if mode == 'overwrite' else (1,)
                if lr['gen'] not in ok_gens or lr['len'] != 50000:
                    vs.append(O.V('C13', 'real-cached-wrong-value', f'{where}: a later run loads {lr}', mode=mode, fault='kill'))
        elif 'later_run_error' in info:
            vs.append(O.V('C13', 'real-later-run-fails', f'{where}: not reported cached, but a later run fails: {info["later_run_error"]}',
                          mode=mode, fault='kill'))
    return n


C13.batch_extra = _c13_batch_extra
