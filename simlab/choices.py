"""The choice stream: one integer decides everything.

Every decision of a run (workload, swarm weights, schedule, faults) is a draw
from a named sub-stream.  A sub-stream is either generated from
``Random(f'{seed}/{name}')`` or replayed from a recorded list of ints
(``value mod n``; ``0`` once the list is exhausted).  By construction the
value 0 is always the simplest alternative (fewest tasks, no fault, first
candidate), so shrinking the recorded lists shrinks workload, schedule and
fault plan together.

Logging never draws.
"""
from __future__ import annotations

import random
from typing import Optional, Sequence


class Stream:
    __slots__ = ('name', 'rng', 'replay', 'pos', 'record')

    def __init__(self, name: str, seed: Optional[int], replay: Optional[list[int]]):
        self.name = name
        self.replay = replay
        self.rng = random.Random(f'{seed}/{name}') if replay is None else None
        self.pos = 0
        self.record: list[int] = []

    def draw(self, n: int) -> int:
        """An int in [0, n).  n <= 1 consumes nothing."""
        if n <= 1:
            return 0
        if self.replay is not None:
            v = self.replay[self.pos] % n if self.pos < len(self.replay) else 0
            self.pos += 1
        else:
            v = self.rng.randrange(n)
        self.record.append(v)
        return v

    def chance(self, num: int, den: int) -> bool:
        """True with probability num/den; value 0 means False."""
        if num <= 0:
            return False
        return self.draw(den) >= den - num

    def weighted(self, weights: Sequence[int]) -> int:
        """Index i with probability weights[i]/sum; index 0 owns the low values."""
        total = 0
        for w in weights:
            total += w
        if total <= 0:
            return 0
        live = 0
        for w in weights:
            if w > 0:
                live += 1
        if live <= 1:
            for i, w in enumerate(weights):
                if w > 0:
                    return i
        v = self.draw(total)
        acc = 0
        for i, w in enumerate(weights):
            acc += w
            if v < acc:
                return i
        return len(weights) - 1

    def pick(self, seq: Sequence):
        return seq[self.draw(len(seq))]

    def subset(self, seq: Sequence, num: int, den: int) -> list:
        return [x for x in seq if self.chance(num, den)]

    def shuffle(self, seq: Sequence) -> list:
        items = list(seq)
        out = []
        while items:
            out.append(items.pop(self.draw(len(items))))
        return out


class Choices:
    """A bundle of named streams derived from one seed (or a replay dict)."""

    def __init__(self, seed: Optional[int] = None, replay: Optional[dict[str, list[int]]] = None):
        self.seed = seed
        self.replay = replay
        self.streams: dict[str, Stream] = {}

    def stream(self, name: str) -> Stream:
        s = self.streams.get(name)
        if s is None:
            rp = None
            if self.replay is not None:
                rp = list(self.replay.get(name, []))
            s = Stream(name, self.seed, rp)
            self.streams[name] = s
        return s

    def recorded(self) -> dict[str, list[int]]:
        return {name: list(s.record) for name, s in sorted(self.streams.items())}
