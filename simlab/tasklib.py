"""Task library shared by all workloads (module-level so that spawn pickling and
cached_tasks deserialisation work).

Every run() returns a Value that encodes its whole provenance: type, ident,
digest of the task's own parameter tree (as seen by the executing copy), the
context visible to it, derived attributes, and the digests of the dependency
values it actually read (in structure order).  Values are therefore unique per
node and attributable: a foreign, stale or default result cannot compare equal.
"""
from __future__ import annotations

import enum
import hashlib
import json
from dataclasses import fields
from typing import Any

from frozendict import frozendict

import labtech
from labtech.cache import BaseCache
from labtech.types import is_task

from . import probe


class Color(enum.Enum):
    RED = 1
    GREEN = 2
    BLUE = 3


class Mode(enum.Enum):
    FAST = 'fast'
    SLOW = 'slow'


class Level(enum.IntEnum):
    """An enum with an int mix-in: its members are ints as well."""
    LOW = 1
    HIGH = 2


class Kind(enum.StrEnum):
    """An enum with a str mix-in: its members are strs as well."""
    IRIS = 'iris'
    WINE = 'wine'


ENUMS = {'Color': Color, 'Mode': Mode, 'Level': Level, 'Kind': Kind}


# ---------------------------------------------------------------- canon

def canon(v: Any):
    """Canonical nested-tuple rendering of a parameter value (walks real tasks)."""
    if is_task(v):
        return ('T', f'{type(v).__module__}.{type(v).__qualname__}',
                tuple((f.name, canon(getattr(v, f.name))) for f in fields(v)))
    if isinstance(v, (tuple, list)):
        return ('t', tuple(canon(x) for x in v))
    if isinstance(v, (dict, frozendict)):
        return ('d', tuple(sorted((k, canon(x)) for k, x in v.items())))
    if isinstance(v, enum.Enum):
        return ('e', type(v).__qualname__, v.name)
    if v is None:
        return ('none',)
    if isinstance(v, bool):
        return ('bool', v)
    if isinstance(v, int):
        return ('int', v)
    if isinstance(v, float):
        return ('float', repr(v))
    if isinstance(v, str):
        return ('str', v)
    return ('?', type(v).__qualname__)


def digest_of(obj) -> str:
    return hashlib.sha1(repr(obj).encode('utf-8')).hexdigest()[:16]


def walk_tasks(v: Any):
    """Every task occurrence directly inside a parameter value, in structure
    order (dict items by key).  Does not descend into tasks."""
    if is_task(v):
        yield v
    elif isinstance(v, (tuple, list)):
        for x in v:
            yield from walk_tasks(x)
    elif isinstance(v, (dict, frozendict)):
        for k in sorted(v.keys()):
            yield from walk_tasks(v[k])


def direct_dep_occurrences(task):
    for f in fields(task):
        yield from walk_tasks(getattr(task, f.name))


# ---------------------------------------------------------------- values

class Unpicklable:
    """Cannot be pickled (raises from __reduce__) and cannot be JSON-encoded."""

    def __reduce__(self):
        raise TypeError('simlab: deliberately unpicklable result part')


class Value:
    """Result value.  Plain class: weak-referenceable, picklable, comparable."""

    def __init__(self, tname, ident, pdigest, ctx, deps, extra=None, pad=None):
        self.tname = tname
        self.ident = ident
        self.pdigest = pdigest
        self.ctx = ctx          # tuple of sorted (key, value) pairs the task saw
        self.deps = deps        # tuple of digests of dependency values read
        self.extra = extra      # derived attributes (post_init)
        self.pad = pad          # payload (bytes / nested with Unpicklable)

    def key(self):
        return (self.tname, self.ident, self.pdigest, self.ctx, self.deps, self.extra)

    @property
    def digest(self) -> str:
        return digest_of(self.key())

    def __eq__(self, other):
        return (isinstance(other, Value) and self.key() == other.key()
                and _pad_sig(self.pad) == _pad_sig(other.pad))

    def __ne__(self, other):
        return not self.__eq__(other)

    def __hash__(self):
        return hash(self.key())

    def __repr__(self):
        return (f'Value({self.tname}#{self.ident} p={self.pdigest} ctx={self.ctx} '
                f'deps={self.deps} extra={self.extra} pad={_pad_sig(self.pad)})')

    def brief(self):
        return [self.tname, self.ident, self.pdigest, list(map(list, self.ctx)), list(self.deps),
                self.extra, _pad_sig(self.pad)]

    def to_json(self):
        pad = self.pad
        if isinstance(pad, bytes):
            pad = {'__bytes__': pad.decode('latin-1')}
        return {'tname': self.tname, 'ident': self.ident, 'pdigest': self.pdigest,
                'ctx': [list(p) for p in self.ctx], 'deps': list(self.deps),
                'extra': self.extra, 'pad': pad}

    @staticmethod
    def from_json(d):
        pad = d['pad']
        if isinstance(pad, dict) and '__bytes__' in pad:
            pad = pad['__bytes__'].encode('latin-1')
        return Value(d['tname'], d['ident'], d['pdigest'], tuple(tuple(p) for p in d['ctx']),
                     tuple(d['deps']), d['extra'], pad)


class NoneValue(Value):
    """What the reference model and the recorders hold for a task whose run() returns None: equal to
    None (and to itself), with a digest of its own."""

    def __init__(self):
        super().__init__('<none>', -1, '', (), ())

    @property
    def digest(self) -> str:
        return '<non-value NoneType>'

    def __eq__(self, other):
        return other is None or isinstance(other, NoneValue)

    def __ne__(self, other):
        return not self.__eq__(other)

    def __hash__(self):
        return hash('<none>')

    def __repr__(self):
        return 'None'

    def brief(self):
        return None


NONE = NoneValue()


def same_value(actual, expected) -> bool:
    """Does the value labtech produced equal the reference value?"""
    if isinstance(expected, NoneValue):
        return actual is None
    return isinstance(actual, Value) and actual == expected


def _pad_sig(pad):
    if pad is None:
        return None
    if isinstance(pad, bytes):
        return ('bytes', len(pad), hashlib.sha1(pad).hexdigest()[:8])
    return ('other', type(pad).__name__)


def make_pad(shape, ident: int):
    if shape in (None, 'small'):
        return None
    if shape == 'big':
        # > 64 KiB: pickle protocol 4/5 writes this as its own frame / direct write
        return bytes((ident * 7 + i) % 251 for i in range(997)) * 211
    if shape == 'medium':
        return bytes((ident * 3 + i) % 241 for i in range(523)) * 23
    if shape == 'unpicklable':
        return (make_pad('big', ident), [Unpicklable()])
    raise ValueError(shape)


def ctx_view(context) -> tuple:
    if context is None:
        return (('<no-context>', 1),)
    return tuple(sorted((k, v) for k, v in context.items()))


# ---------------------------------------------------------------- JSON cache

class Formats:
    """Namespace: the cache class below is a *nested* class (its __qualname__ differs from its __name__)."""

    class Json(BaseCache):
        """A second cache format sharing the storage with PickleCache."""

        KEY_PREFIX = 'json__'
        RESULT_FILENAME = 'data.json'
        METADATA_FILENAME = 'meta.json'          # (a cache class may name its metadata file differently)

        def save_result(self, storage, task, result):
            data_file = storage.file_handle(task.cache_key, self.RESULT_FILENAME, mode='w')
            with data_file:
                json.dump(result.to_json(), data_file)

        def load_result(self, storage, task):
            data_file = storage.file_handle(task.cache_key, self.RESULT_FILENAME, mode='r')
            with data_file:
                return Value.from_json(json.load(data_file))


JsonCache = Formats.Json


# ---------------------------------------------------------------- run body

def _run(self, extra=None, refer_to_self=False, returns_none=False):
    pr = probe.ACTIVE
    pr.begin(self)
    dep_digests = []
    for dep in direct_dep_occurrences(self):
        try:
            v = dep.result
        except BaseException as e:
            pr.read_fail(self, dep, e)
            raise
        pr.read(self, dep, v)
        dep_digests.append(v.digest if isinstance(v, Value) else f'<non-value {type(v).__name__}>')
        del v       # the frame of a run() that fails later must not keep a dependency's value alive
    pr.work(self)
    val = Value(
        tname=f'{type(self).__module__.rsplit(".", 1)[-1]}.{type(self).__qualname__}',
        ident=self.ident,
        pdigest=digest_of(canon(self)),
        ctx=ctx_view(self.context) if getattr(pr, 'embed_ctx', True) else (),
        deps=tuple(dep_digests),
        extra=extra,
        pad=((self,) + tuple(direct_dep_occurrences(self))) if refer_to_self else make_pad(pr.shape(self), self.ident),
    )
    if returns_none:
        del val
        pr.end(self, NONE)
        return None
    pr.end(self, val)
    return val


# ---------------------------------------------------------------- task types
# All types share the fields (ident, tag, deps, opt); `deps` holds an arbitrary
# nested structure of tasks and scalars, `opt` scalar/enum/nested scalars.

@labtech.task
class TA:
    ident: int
    tag: str
    deps: Any = ()
    opt: Any = None

    def run(self):
        return _run(self)


@labtech.task(max_parallel=1)
class TB:
    ident: int
    tag: str
    deps: Any = ()
    opt: Any = None

    def run(self):
        return _run(self)


@labtech.task(max_parallel=2)
class TC:
    ident: int
    tag: str
    deps: Any = ()
    opt: Any = None

    def run(self):
        return _run(self)


@labtech.task(max_parallel=3, cache=JsonCache())
class TD:
    ident: int
    tag: str
    deps: Any = ()
    opt: Any = None

    def run(self):
        return _run(self)


@labtech.task(cache=None)
class TN:
    ident: int
    tag: str
    deps: Any = ()
    opt: Any = None

    def run(self):
        return _run(self)


@labtech.task(cache=None, max_parallel=1)
class TN1:
    ident: int
    tag: str
    deps: Any = ()
    opt: Any = None

    def run(self):
        return _run(self)


@labtech.task(cache=None, max_parallel=2)
class TN2:
    ident: int
    tag: str
    deps: Any = ()
    opt: Any = None

    def run(self):
        return _run(self)


@labtech.task(max_parallel=3)
class TF:
    """filter_context is not idempotent: applying it twice gives another context."""
    ident: int
    tag: str
    deps: Any = ()
    opt: Any = None

    def filter_context(self, context):
        return {'alpha': context.get('alpha'), 'depth': context.get('depth', 0) + 1}

    def run(self):
        return _run(self)


@labtech.task(max_parallel=2)
class TP:
    """post_init derives an attribute that run() uses; filter_context keeps a
    per-parameter subset of the context."""
    ident: int
    tag: str
    deps: Any = ()
    opt: Any = None
    ctxkeys: Any = ()

    def post_init(self):
        object.__setattr__(self, 'derived', f'{self.tag}!{self.ident}')

    def filter_context(self, context):
        return {k: v for k, v in context.items() if k in self.ctxkeys}

    def run(self):
        return _run(self, extra=self.derived)


@labtech.task
class TR:
    """Its result refers to the task object itself and to its dependency task objects."""
    ident: int
    tag: str
    deps: Any = ()
    opt: Any = None

    def run(self):
        return _run(self, refer_to_self=True)


@labtech.task
class TA__w:
    """A type whose name contains the separator used inside cache keys."""
    ident: int
    tag: str
    deps: Any = ()
    opt: Any = None

    def run(self):
        return _run(self)


@labtech.task
class TZ:
    """Its result is None."""
    ident: int
    tag: str
    deps: Any = ()
    opt: Any = None

    def run(self):
        return _run(self, returns_none=True)


@labtech.task
class Node:
    ident: int
    tag: str
    deps: Any = ()
    opt: Any = None

    def run(self):
        return _run(self)


@labtech.task
class NodeX:
    ident: int
    tag: str
    deps: Any = ()
    opt: Any = None

    def run(self):
        return _run(self)


from labtech.cache import PickleCache  # noqa: E402

SHARED_CACHE = PickleCache()      # one cache *instance* configured on two task types (a module-level `my_cache = ...`)


@labtech.task(max_parallel=1, cache=SHARED_CACHE)
class TS1:
    ident: int
    tag: str
    deps: Any = ()
    opt: Any = None

    def run(self):
        return _run(self)


@labtech.task(max_parallel=1, cache=SHARED_CACHE)
class TS2:
    """Same cache instance and same max_parallel as TS1: the two limits are still separate."""
    ident: int
    tag: str
    deps: Any = ()
    opt: Any = None

    def run(self):
        return _run(self)


def _late_types():
    from . import tasklib2
    return {'TA2': tasklib2.TA}


TYPES = {
    'TA': TA, 'TB': TB, 'TC': TC, 'TD': TD, 'TN': TN, 'TN1': TN1, 'TN2': TN2, 'TF': TF, 'TP': TP, 'TR': TR, 'TZ': TZ, 'TW': TA__w,
    'TS1': TS1, 'TS2': TS2,
    'Node': Node, 'NodeX': NodeX,
}


def get_type(name: str):
    t = TYPES.get(name)
    if t is None:
        TYPES.update(_late_types())
        t = TYPES[name]
    return t


TYPE_INFO = {
    # name: (max_parallel, cache kind)
    'TA': (None, 'pickle'), 'TB': (1, 'pickle'), 'TC': (2, 'pickle'), 'TD': (3, 'json'),
    'TN': (None, None), 'TN1': (1, None), 'TN2': (2, None), 'TF': (3, 'pickle'), 'TP': (2, 'pickle'), 'TR': (None, 'pickle'), 'TZ': (None, 'pickle'), 'TW': (None, 'pickle'),
    'Node': (None, 'pickle'), 'NodeX': (None, 'pickle'), 'TA2': (None, 'pickle'),
    'TS1': (1, 'pickle'), 'TS2': (1, 'pickle'),
}

TYPE_QUALNAME = {
    'TA': 'simlab.tasklib.TA', 'TB': 'simlab.tasklib.TB', 'TC': 'simlab.tasklib.TC',
    'TD': 'simlab.tasklib.TD', 'TN': 'simlab.tasklib.TN', 'TN1': 'simlab.tasklib.TN1',
    'TP': 'simlab.tasklib.TP', 'TR': 'simlab.tasklib.TR', 'TN2': 'simlab.tasklib.TN2', 'TF': 'simlab.tasklib.TF', 'Node': 'simlab.tasklib.Node', 'NodeX': 'simlab.tasklib.NodeX',
    'TA2': 'simlab.tasklib2.TA', 'TZ': 'simlab.tasklib.TZ', 'TW': 'simlab.tasklib.TA__w',
    'TS1': 'simlab.tasklib.TS1', 'TS2': 'simlab.tasklib.TS2',
}


# ---------------------------------------------------------------- fsspec-backed storages

from labtech.storage import FsspecStorage  # noqa: E402


class LocalFsspecStorage(FsspecStorage):
    """FsspecStorage over fsspec's LocalFileSystem."""

    def fs_constructor(self):
        from fsspec.implementations.local import LocalFileSystem
        return LocalFileSystem()


class MemFsspecStorage(FsspecStorage):
    """FsspecStorage over fsspec's in-process MemoryFileSystem (in-process substrates only)."""

    def fs_constructor(self):
        from fsspec.implementations.memory import MemoryFileSystem
        return MemoryFileSystem()
