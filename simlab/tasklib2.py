"""A second module holding a task type with the same name as tasklib.TA."""
from __future__ import annotations

from typing import Any

import labtech

from .tasklib import _run


@labtech.task
class TA:
    ident: int
    tag: str
    deps: Any = ()
    opt: Any = None

    def run(self):
        return _run(self)
