"""S3 real-OS probe for C14: a real SIGINT for the whole foreground process group at a controlled
resting point (every worker is inside run()), once or twice.

Child mode (the Lab process, started in its own session by the controller):
    python simlab/realsigint.py <backend> <dir>
prints 'SIGPROBE <json>' when run_tasks has returned or raised.
"""
import json
import os
import sys
import time

import labtech


@labtech.task
class Slow:
    n: int

    def run(self):
        d = self.context['d']
        open(os.path.join(d, f'started{self.n}'), 'w').close()
        # wait for the controller's release (or give up after 6 s)
        t0 = time.time()
        while not os.path.exists(os.path.join(d, 'release')) and time.time() - t0 < 6:
            time.sleep(0.01)
        time.sleep(0.3)
        open(os.path.join(d, f'done{self.n}'), 'w').close()
        if self.n == 2 and os.path.exists(os.path.join(d, 'fail2')):
            # one of the tasks that were executing when the interrupt arrived fails while the run is drained
            # (the Lab has continue_on_failure=False): the outcome must still be KeyboardInterrupt
            raise RuntimeError('fails while the interrupted run is being drained')
        return self.n * 10


def main(argv):
    import logging
    import signal
    # A process started from a background job of a non-interactive shell inherits SIGINT as ignored, and
    # Python then never installs its KeyboardInterrupt handler.  The probe is about an interactive
    # caller: start from the default disposition whatever was inherited.
    signal.signal(signal.SIGINT, signal.default_int_handler)
    backend, d = argv[1], argv[2]
    labtech.logger.setLevel(logging.CRITICAL)
    lab = labtech.Lab(storage=os.path.join(d, 'storage'), runner_backend=backend, notebook=False, context={'d': d},
                      max_workers=3, continue_on_failure=False)
    tasks = [Slow(n=i) for i in range(3)]
    t0 = time.time()
    outcome = 'return'
    try:
        lab.run_tasks(tasks, disable_progress=True, disable_top=True)
    except KeyboardInterrupt:
        outcome = 'KeyboardInterrupt'
    except BaseException as ex:
        outcome = f'{type(ex).__name__}: {ex}'
    elapsed = time.time() - t0
    cached = [bool(lab.is_cached(t)) for t in tasks]
    sys.stdout.write('SIGPROBE ' + json.dumps({'backend': backend, 'outcome': outcome, 'elapsed': round(elapsed, 2),
                                               'is_cached': cached}) + '\n')
    sys.stdout.flush()
    return 0


if __name__ == '__main__':
    sys.exit(main(sys.argv))
