"""Per-property checks: scenario generation (from the choice stream), the
substrate(s) to run on, the oracles to apply, the non-triviality rule and the
principal fault kinds that must actually fire.

`run_one(prop_id, ch, workdir, tier)` executes one simulated case and returns a
JSON-able result record.
"""
from __future__ import annotations

import os
import shutil
import tempfile
from typing import Callable, Optional

from . import oracles as O
from .choices import Choices
from .execute import execute
from .spec import DEFAULT_TYPES, Ref, gen_dag, gen_requested
from .tasklib import TYPE_INFO, digest_of

REAL_VS_STUB = {
    'serial': {'real': ['labtech.lab', 'labtech.tasks', 'labtech.cache', 'labtech.storage', 'labtech.serialization',
                        'labtech.runners.base', 'labtech.runners.serial (SerialRunner)'],
               'stub': ['Storage wrapper SimStorage (pass-through, optional)', 'spy Runner wrapper (pass-through)']},
    'sim': {'real': ['labtech.lab (TaskState, TaskCoordinator, Lab)', 'labtech.tasks', 'labtech.cache', 'labtech.storage',
                     'labtech.serialization', 'labtech.runners.base.run_or_load_task'],
            'stub': ['the Runner (simlab.simrunner.SimRunner through the public RunnerBackend ABC)']},
    'fork': {'real': ['everything in labtech/ that executes, incl. ForkProcessRunner, ProcessExecutor, ProcessMonitor, '
                      '_subprocess_target, LoggerFileProxy'],
             'stub': ['multiprocessing (Process, Manager().Queue, contexts, current_process)', 'threading.Thread as used by process.py',
                      'signal.signal', 'os.cpu_count', 'datetime.now (virtual clock)', 'psutil sees non-existent pids',
                      'Storage wrapper SimStorage around the real LocalStorage']},
}
REAL_VS_STUB['spawn'] = {'real': [REAL_VS_STUB['fork']['real'][0].replace('ForkProcessRunner', 'SpawnProcessRunner')],
                         'stub': REAL_VS_STUB['fork']['stub']}


# ---------------------------------------------------------------- generic scenario

def gen_swarm(cfg) -> dict:
    return {
        'w_coord': 1 + cfg.draw(8),
        'w_worker': 1 + cfg.draw(8),
        'w_timeout': 1 + cfg.draw(4),
        'w_release': 1 + cfg.draw(4),
        'burst': cfg.pick([0, 0, 2, 6]),
        'order': cfg.pick(['random', 'fifo', 'lifo', 'random']),
        'gate_mode': cfg.pick(['free', 'hold', 'hold']),
    }


def gen_s1(cfg) -> dict:
    return {
        'exec_at': cfg.pick(['complete', 'start']),
        'order': cfg.pick(['random', 'fifo', 'lifo', 'random']),
        'w_empty': cfg.pick([0, 2, 6]),
        'w_multi': cfg.pick([1, 3, 8]),
    }


def gen_scenario(ch: Choices, *, backends, max_nodes=8, types=None, cache='sometimes', bust=False,
                 fail=0, die=False, cof=(True,), dup_refs=True, max_workers=(1, 2, 3, None)) -> dict:
    st = ch.stream('spec')
    cfg = ch.stream('config')
    nodes = gen_dag(st, max_nodes=max_nodes, types=types or DEFAULT_TYPES, dup_refs=dup_refs)
    req = gen_requested(st, nodes)
    backend = backends[cfg.weighted([w for _, w in backends])][0]
    sc = {
        'nodes': nodes,
        'requested': req,
        'backend': backend,
        'max_workers': cfg.pick(list(max_workers)),
        'cpu_count': 1 + cfg.draw(4),
        'cof': cfg.pick(list(cof)),
        'gen_pre': 0,
        'gen_main': 1,
        'swarm': gen_swarm(cfg),
        's1': gen_s1(cfg),
    }
    ref = Ref(sc)
    if cache != 'never' and (cache == 'always' or cfg.chance(1, 2)):
        cands = [n['id'] for n in nodes if ref.cacheable(n['id'])]
        sc['cached'] = [i for i in cands if cfg.chance(1, 2)]
    if bust and cfg.chance(1, 5):
        sc['bust_cache'] = True
    if fail:
        f = {}
        ft = ch.stream('fault')
        for n in nodes:
            if ft.chance(fail, 12):
                how = 'raise'
                if die and backend in ('sim', 'fork', 'spawn') and ft.chance(1, 3):
                    how = 'die'
                f[str(n['id'])] = how
        sc['fail'] = f
    return sc


def with_die_kills(sc: dict, ch: Choices) -> dict:
    """On the process substrates a planned 'die' becomes a kill of that task's
    worker at a drawn point before its result is queued (not inside the save:
    what a kill in the middle of a save leaves behind is C13's subject)."""
    if sc['backend'] not in ('fork', 'spawn'):
        return sc
    ft = ch.stream('fault')
    kills = list(sc.get('kills') or [])
    for k, how in (sc.get('fail') or {}).items():
        if how == 'die':
            phase = ft.pick(['run', 'pre', 'run'])
            kills.append({'node': int(k), 'phase': phase, 'k': ft.draw(3), 'how': 'kill'})
    sc['kills'] = kills
    return sc


# ---------------------------------------------------------------- result record

def compact_spec(sc: dict) -> dict:
    keep = ('nodes', 'requested', 'backend', 'max_workers', 'cpu_count', 'cof', 'cached', 'bust_cache', 'fail',
            'kills', 'interrupts', 'io_fault', 'inject_line', 'swarm', 's1', 'storage', 'progress', 'line_yield')
    return {k: sc[k] for k in keep if k in sc and sc[k] not in (None, [], {})}


def spec_digest(sc: dict) -> str:
    return digest_of(compact_spec(sc))


def max_inflight(out) -> int:
    cur = 0
    best = 0
    for e in out.events:
        if e[0] in ('pstart', 'start'):
            cur += 1
            best = max(best, cur)
        elif e[0] == 'complete':
            cur = max(0, cur - 1)
    return best


def probes_of(sc, out) -> dict:
    """Cheap reach probes evaluated on the event log."""
    p = {}
    ev = out.events
    batch = 0
    for e in ev:
        if e[0] in ('wait-enter', 'wait'):
            batch = 0
        elif e[0] == 'complete':
            batch += 1
            if batch >= 2:
                p['multi-completion-batch'] = 1
        elif e[0] in ('empty-poll',):
            p['empty-poll'] = 1
        elif e[0] == 'wait-leave' and e[1] == 0:
            p['empty-poll'] = 1
        elif e[0] == 'kill':
            p['worker-killed'] = 1
        elif e[0] == 'idle-wait':
            p['idle-wait'] = 1
    if any(e[0] == 'remove' and e[1] for e in ev):
        p['result-released'] = 1
    if sc.get('cached'):
        p['warm-cache'] = 1
    ref = Ref(sc)
    req = set(ref.requested_ids())
    if any(d in req for n in ref.nodes for d in ref.direct[n]):
        p['requested-is-dependency'] = 1
    if len(sc['requested']) != len(req):
        p['duplicate-request'] = 1
    if max_inflight(out) >= 2:
        p['two-in-flight'] = 1
    if out.timeouts:
        p['poll-timeouts'] = 1
    return p


def result_record(prop: str, sc: dict, out, violations: list, ch: Choices, extra: Optional[dict] = None) -> dict:
    faults = dict(out.fault_counts)
    nontrivial = max_inflight(out) >= 2 or any(v for v in faults.values())
    rec = {
        'prop': prop,
        'violations': violations,
        'spec_digest': spec_digest(sc),
        'sched_digest': out.schedule_digest(),
        'event_digest': out.digest(),
        'order': list(out.completion_order()),
        'nontrivial': bool(nontrivial),
        'faults': faults,
        'probes': probes_of(sc, out),
        'vtime': out.vtime,
        'steps': out.steps,
        'backend': sc['backend'],
        'outcome': out.kind if out.kind != 'raise' else f'raise:{out.exc["type"]}',
        'n_events': len(out.events),
        'leaked': out.leaked_threads,
    }
    if extra:
        rec.update(extra)
    return rec


# ---------------------------------------------------------------- the checks

class Check:
    id = ''
    level = 'exploration'
    quick_runs = 1600
    thorough_runs = 16000
    principal_faults: tuple = ()
    rule = ('distinct (specification digest, schedule digest) pairs whose run had >=2 tasks in flight at some point '
            'or >=1 injected fault that actually fired')

    def gen(self, ch: Choices, tier: str) -> dict:
        raise NotImplementedError

    def oracle(self, sc, out, facts) -> list:
        raise NotImplementedError

    def run(self, ch: Choices, workdir: str, tier: str) -> dict:
        sc = self.gen(ch, tier)
        d = tempfile.mkdtemp(dir=workdir)
        try:
            out = execute(sc, ch, d)
            facts = O.Facts(sc, out)
            vs = self.oracle(sc, out, facts)
        finally:
            shutil.rmtree(d, ignore_errors=True)
        return self.record(sc, out, vs, ch)

    def record(self, sc, out, vs, ch, extra=None):
        r = result_record(self.id, sc, out, vs, ch, extra)
        r['sample'] = {'spec': compact_spec(sc), 'completion_order': r['order'], 'faults': r['faults'],
                       'outcome': r['outcome'], 'schedule_digest': r['sched_digest']}
        return r

    def components(self):
        return REAL_VS_STUB


ALL_BACKENDS = [('serial', 2), ('sim', 5), ('fork', 4), ('spawn', 3)]
PAR_BACKENDS = [('sim', 5), ('fork', 4), ('spawn', 3)]


class C01(Check):
    id = 'C01'

    def gen(self, ch, tier):
        sc = gen_scenario(ch, backends=ALL_BACKENDS, cache='sometimes')
        sc['gen_pre'] = sc['gen_main'] = 1      # value must not depend on the cache pre-state
        cfg = ch.stream('config')
        if len(sc['requested']) == 1 and cfg.chance(1, 4):
            sc['run_task'] = True
        return sc

    def oracle(self, sc, out, facts):
        return O.check_C01(sc, out, facts)


class C02(Check):
    id = 'C02'

    def gen(self, ch, tier):
        sc = gen_scenario(ch, backends=ALL_BACKENDS, cache='sometimes', fail=1, die=True, cof=(True, True, False))
        return with_die_kills(sc, ch)

    def oracle(self, sc, out, facts):
        return O.check_C02(sc, out, facts)


class C03(Check):
    id = 'C03'

    def gen(self, ch, tier):
        return gen_scenario(ch, backends=ALL_BACKENDS, cache='always', bust=True)

    def oracle(self, sc, out, facts):
        vs = O.check_C03(sc, out, facts)
        if out.kind != 'return':
            what = out.exc['type'] if out.exc else out.abort
            vs.append(O.V('C03', 'no-return', f'run_tasks did not return: {out.kind} {what}', exc=what))
        return vs


class C04(Check):
    id = 'C04'

    def gen(self, ch, tier):
        sc = gen_scenario(ch, backends=[('serial', 1), ('sim', 4), ('fork', 5), ('spawn', 3)], cache='sometimes',
                          fail=1, die=True, max_nodes=10,
                          types=[('TA', 2), ('TB', 4), ('TC', 4), ('TD', 3), ('TN', 1), ('TN1', 3), ('TP', 2)])
        sc['swarm']['gate_mode'] = 'hold'
        return with_die_kills(sc, ch)

    def oracle(self, sc, out, facts):
        return O.check_C04(sc, out, facts)


class C05(Check):
    id = 'C05'

    def gen(self, ch, tier):
        sc = gen_scenario(ch, backends=[('serial', 1), ('sim', 4), ('fork', 5), ('spawn', 3)], cache='sometimes',
                          fail=1, die=True, max_nodes=10,
                          types=[('TA', 3), ('TB', 3), ('TC', 4), ('TD', 3), ('TN', 2), ('TN1', 2), ('TP', 2)])
        sc['swarm']['gate_mode'] = 'rest'
        sc['swarm']['w_timeout'] = 2
        return with_die_kills(sc, ch)

    def oracle(self, sc, out, facts):
        return O.check_C05(sc, out, facts)

    def record(self, sc, out, vs, ch, extra=None):
        r = super().record(sc, out, vs, ch, extra)
        r['probes']['rest-points'] = getattr(out, 'rest_points', 0)
        return r


class C10(Check):
    id = 'C10'
    principal_faults = ('task-raise',)

    def gen(self, ch, tier):
        sc = gen_scenario(ch, backends=ALL_BACKENDS, cache='sometimes', fail=2, die=True, cof=(True, False, True))
        return with_die_kills(sc, ch)

    def oracle(self, sc, out, facts):
        return O.check_C10(sc, out, facts)


class C11(Check):
    id = 'C11'

    def gen(self, ch, tier):
        sc = gen_scenario(ch, backends=[('serial', 1), ('sim', 4), ('fork', 5), ('spawn', 3)], cache='sometimes',
                          fail=2, die=True, cof=(True, False, True), bust=True)
        cfg = ch.stream('config')
        if cfg.chance(1, 4):
            sc['max_workers'] = 1
        if cfg.chance(1, 3):
            sc['progress'] = True
        sc = with_die_kills(sc, ch)
        if sc['backend'] in ('fork', 'spawn'):
            ft = ch.stream('fault')
            if ft.chance(1, 3):
                # workers killed after they queued their result / at random instants
                sc['kill_rate'] = ft.pick([40, 120, 400])
                sc['max_random_kills'] = 1 + ft.draw(3)
        return sc

    def oracle(self, sc, out, facts):
        return O.check_C11(sc, out, facts)


class C17(Check):
    id = 'C17'

    def gen(self, ch, tier):
        sc = gen_scenario(ch, backends=ALL_BACKENDS, cache='sometimes', fail=1, die=True, cof=(True,))
        sc['retention'] = True
        return with_die_kills(sc, ch)

    def oracle(self, sc, out, facts):
        return O.check_C17(sc, out, facts)

    def record(self, sc, out, vs, ch, extra=None):
        r = super().record(sc, out, vs, ch, extra)
        for k, v in (out.retention_stats or {}).items():
            r['probes']['retention-' + k] = v
        return r


CHECKS: dict[str, Check] = {c.id: c for c in [C01(), C02(), C03(), C04(), C05(), C10(), C11(), C17()]}
