"""Per-property checks: scenario generation (from the choice stream), the
substrate(s) to run on, the oracles to apply, the non-triviality rule and the
principal fault kinds that must actually fire.

`run_one(prop_id, ch, workdir, tier)` executes one simulated case and returns a
JSON-able result record.
"""
from __future__ import annotations

import os
import shutil
import tempfile
from typing import Callable, Optional

from . import oracles as O
from .choices import Choices
from .execute import execute
from .spec import DEFAULT_TYPES, Ref, gen_dag, gen_requested
from .tasklib import TYPE_INFO, digest_of

REAL_VS_STUB = {
    'serial': {'real': ['labtech.lab', 'labtech.tasks', 'labtech.cache', 'labtech.storage', 'labtech.serialization',
                        'labtech.runners.base', 'labtech.runners.serial (SerialRunner)'],
               'stub': ['Storage wrapper SimStorage (pass-through, optional)', 'spy Runner wrapper (pass-through)']},
    'sim': {'real': ['labtech.lab (TaskState, TaskCoordinator, Lab)', 'labtech.tasks', 'labtech.cache', 'labtech.storage',
                     'labtech.serialization', 'labtech.runners.base.run_or_load_task'],
            'stub': ['the Runner (simlab.simrunner.SimRunner through the public RunnerBackend ABC)']},
    'fork': {'real': ['everything in labtech/ that executes, incl. ForkProcessRunner, ProcessExecutor, ProcessMonitor, '
                      '_subprocess_target, LoggerFileProxy'],
             'stub': ['multiprocessing (Process, Manager().Queue, contexts, current_process)', 'threading.Thread as used by process.py',
                      'signal.signal', 'os.cpu_count', 'datetime.now (virtual clock)', 'psutil sees non-existent pids',
                      'Storage wrapper SimStorage around the real LocalStorage']},
}
REAL_VS_STUB['spawn'] = {'real': [REAL_VS_STUB['fork']['real'][0].replace('ForkProcessRunner', 'SpawnProcessRunner')],
                         'stub': REAL_VS_STUB['fork']['stub']}


# ---------------------------------------------------------------- generic scenario

def gen_swarm(cfg) -> dict:
    return {
        'w_coord': 1 + cfg.draw(8),
        'w_worker': 1 + cfg.draw(8),
        'w_timeout': 1 + cfg.draw(4),
        'w_release': 1 + cfg.draw(4),
        'burst': cfg.pick([0, 0, 2, 6]),
        'order': cfg.pick(['random', 'fifo', 'lifo', 'random']),
        'gate_mode': cfg.pick(['free', 'hold', 'hold']),
    }


def gen_s1(cfg) -> dict:
    return {
        'exec_at': cfg.pick(['complete', 'start']),
        'order': cfg.pick(['random', 'fifo', 'lifo', 'random']),
        'w_empty': cfg.pick([0, 2, 6]),
        'w_multi': cfg.pick([1, 3, 8]),
    }


def gen_scenario(ch: Choices, *, backends, max_nodes=8, types=None, cache='sometimes', bust=False,
                 fail=0, die=False, cof=(True,), dup_refs=True, max_workers=(1, 2, 3, None), debris=True,
                 load_faults=False) -> dict:
    st = ch.stream('spec')
    cfg = ch.stream('config')
    nodes = gen_dag(st, max_nodes=max_nodes, types=types or DEFAULT_TYPES, dup_refs=dup_refs)
    req = gen_requested(st, nodes)
    backend = backends[cfg.weighted([w for _, w in backends])][0]
    sc = {
        'nodes': nodes,
        'requested': req,
        'backend': backend,
        'max_workers': cfg.pick(list(max_workers)),
        'cpu_count': 1 + cfg.draw(4),
        'cof': cfg.pick(list(cof)),
        'gen_pre': 0,
        'gen_main': 1,
        'swarm': gen_swarm(cfg),
        's1': gen_s1(cfg),
    }
    ref = Ref(sc)
    if cache != 'never' and (cache == 'always' or cfg.chance(1, 2)):
        cands = [n['id'] for n in nodes if ref.cacheable(n['id'])]
        sc['cached'] = [i for i in cands if cfg.chance(1, 2)]
    if bust and cfg.chance(1, 5):
        sc['bust_cache'] = True
    if debris and cfg.chance(1, 3):
        # leftovers of saves that failed part-way, for some nodes that are not cached
        rest = [n['id'] for n in nodes if ref.cacheable(n['id']) and n['id'] not in sc.get('cached', [])]
        sc['debris'] = [i for i in rest if cfg.chance(1, 3)]
    if backend in ('serial', 'sim') and cfg.chance(1, 6):
        # the storage directory is given as a relative path and some tasks change the working directory
        sc['rel_storage'] = True
        sc['chdir_nodes'] = [n['id'] for n in nodes if cfg.chance(1, 3)]
    if load_faults and sc.get('cached') and not sc.get('bust_cache') and cfg.chance(1, 4):
        # a storage read error while a cached result is loaded
        sc['load_faults'] = [cfg.pick(sc['cached'])]
    if fail:
        f = {}
        ft = ch.stream('fault')
        for n in nodes:
            if ft.chance(fail, 12):
                how = 'raise'
                if die and backend in ('sim', 'fork', 'spawn') and ft.chance(1, 3):
                    how = 'die'
                elif ft.chance(1, 6):
                    how = 'sysexit'
                elif ft.chance(1, 5):
                    how = 'raise-chained'
                f[str(n['id'])] = how
        sc['fail'] = f
    return sc


def with_die_kills(sc: dict, ch: Choices) -> dict:
    """On the process substrates a planned 'die' becomes a kill of that task's
    worker at a drawn point before its result is queued (not inside the save:
    what a kill in the middle of a save leaves behind is C13's subject)."""
    if sc['backend'] not in ('fork', 'spawn'):
        return sc
    ft = ch.stream('fault')
    kills = list(sc.get('kills') or [])
    for k, how in (sc.get('fail') or {}).items():
        if how == 'die':
            phase = ft.pick(['run', 'pre', 'run'])
            kills.append({'node': int(k), 'phase': phase, 'k': ft.draw(3), 'how': ft.pick(['kill', 'exit0', 'kill', 'exit1'])})
    sc['kills'] = kills
    return sc


# ---------------------------------------------------------------- result record

def compact_spec(sc: dict) -> dict:
    keep = ('nodes', 'requested', 'backend', 'max_workers', 'cpu_count', 'cof', 'cached', 'bust_cache', 'fail',
            'kills', 'interrupts', 'io_fault', 'inject_line', 'swarm', 's1', 'storage', 'progress', 'line_yield', 'rel_storage',
            'chdir_nodes', 'coarse_clock', 'emit', 'linger', 'shapes', 'helpers', 'mp_children', 'earlier_call', 'earlier_interrupted', 'caller_thread')
    return {k: sc[k] for k in keep if k in sc and sc[k] not in (None, [], {})}


def spec_digest(sc: dict) -> str:
    return digest_of(compact_spec(sc))


def max_inflight(out) -> int:
    cur = 0
    best = 0
    for e in out.events:
        if e[0] in ('pstart', 'start'):
            cur += 1
            best = max(best, cur)
        elif e[0] == 'complete':
            cur = max(0, cur - 1)
    return best


def probes_of(sc, out) -> dict:
    """Cheap reach probes evaluated on the event log."""
    p = {}
    ev = out.events
    batch = 0
    for e in ev:
        if e[0] in ('wait-enter', 'wait'):
            batch = 0
        elif e[0] == 'complete':
            batch += 1
            if batch >= 2:
                p['multi-completion-batch'] = 1
        elif e[0] in ('empty-poll',):
            p['empty-poll'] = 1
        elif e[0] == 'wait-leave' and e[1] == 0:
            p['empty-poll'] = 1
        elif e[0] == 'kill':
            p['worker-killed'] = 1
        elif e[0] == 'idle-wait':
            p['idle-wait'] = 1
    if any(e[0] == 'remove' and e[1] for e in ev):
        p['result-released'] = 1
    if sc.get('cached'):
        p['warm-cache'] = 1
    ref = Ref(sc)
    req = set(ref.requested_ids())
    if any(d in req for n in ref.nodes for d in ref.direct[n]):
        p['requested-is-dependency'] = 1
    if len(sc['requested']) != len(req):
        p['duplicate-request'] = 1
    if max_inflight(out) >= 2:
        p['two-in-flight'] = 1
    if out.timeouts:
        p['poll-timeouts'] = 1
    return p


def result_record(prop: str, sc: dict, out, violations: list, ch: Choices, extra: Optional[dict] = None) -> dict:
    faults = dict(out.fault_counts)
    nontrivial = max_inflight(out) >= 2 or any(v for v in faults.values())
    rec = {
        'prop': prop,
        'violations': violations,
        'spec_digest': spec_digest(sc),
        'sched_digest': out.schedule_digest(),
        'event_digest': out.digest(),
        'order': list(out.completion_order()),
        'nontrivial': bool(nontrivial),
        'faults': faults,
        'probes': probes_of(sc, out),
        'vtime': out.vtime,
        'steps': out.steps,
        'backend': sc['backend'],
        'outcome': out.kind if out.kind != 'raise' else f'raise:{out.exc["type"]}',
        'n_events': len(out.events),
        'leaked': out.leaked_threads,
    }
    if extra:
        rec.update(extra)
    return rec


# ---------------------------------------------------------------- the checks

class Check:
    id = ''
    level = 'exploration'
    quick_runs = 1600
    thorough_runs = 16000
    principal_faults: tuple = ()
    rule = ('distinct (specification digest, schedule digest) pairs whose run had >=2 tasks in flight at some point '
            'or >=1 injected fault that actually fired')

    def gen(self, ch: Choices, tier: str) -> dict:
        raise NotImplementedError

    def oracle(self, sc, out, facts) -> list:
        raise NotImplementedError

    def run(self, ch: Choices, workdir: str, tier: str) -> dict:
        sc = self.gen(ch, tier)
        d = tempfile.mkdtemp(dir=workdir)
        second = False
        try:
            built = None
            if sc.get('earlier_call'):
                # an earlier run_tasks call in which everything succeeds (no storage, serial backend, another
                # context); the observed call then gets the very same task objects
                sc0 = {k: v for k, v in sc.items() if k not in ('fail', 'kills', 'kill_rate', 'max_random_kills', 'cached', 'bust_cache',
                                                                'prelude', 'interrupts', 'emit', 'debris', 'load_faults', 'run_task',
                                                                'earlier_call', 'linger', 'helpers', 'shapes', 'rel_storage')}
                sc0.update({'storage': 'none', 'gen_main': 6, 'backend': 'serial'})
                out0 = execute(sc0, ch, None)
                if out0.kind == 'return':
                    built = out0.built
            session = None
            if sc.get('earlier_interrupted'):
                # an earlier run_tasks call on the same Lab object that was interrupted right after its first
                # submission (serial backend: nothing has been executed yet); the observed call follows on that Lab
                session = {}
                sc0 = {k: v for k, v in sc.items() if k not in ('fail', 'kills', 'kill_rate', 'max_random_kills', 'bust_cache', 'prelude',
                                                                'emit', 'load_faults', 'run_task', 'earlier_interrupted', 'earlier_call',
                                                                'linger', 'helpers', 'shapes', 'rel_storage', 'progress')}
                sc0.update({'backend': 'serial', 'interrupts': [{'mode': 'line', 'k': 0, 'after': 'submit'}], 'observe_after': False})
                out0 = execute(sc0, ch, d, session=session)
                if not (out0.kind == 'raise' and out0.exc and out0.exc['type'] == 'KeyboardInterrupt'):
                    session = None if session.get('lab') is None else session      # (nothing was submitted: no interrupt)
                sc = dict(sc)
                sc['skip_warm'] = True
                sc.pop('debris', None)
            out = execute(sc, ch, d, built=built, session=session)
            if out.kind == 'warmup-failed':
                vs = [O.V(self.id, 'earlier-run-failed', f'the earlier serial run that creates the cache pre-state (all tasks succeed) '
                          f'failed: {out.exc["type"]}: {out.exc["msg"][:200]}', exc=out.exc['type'])]
            else:
                facts = O.Facts(sc, out)
                vs = self.oracle(sc, out, facts)
                if self.second_call and not vs and out.kind == 'return' and ch.stream('config').chance(1, 3):
                    # the same task objects are handed to a second run_tasks call (new Lab, no storage,
                    # another context): nothing of the first call may leak into it
                    sc2 = {k: v for k, v in sc.items() if k not in ('cached', 'bust_cache', 'run_task', 'prelude')}
                    sc2.update({'storage': 'none', 'gen_main': 7, 'backend': ch.stream('config').pick(['serial', sc['backend'], 'sim'])})
                    if 'fail' in sc and ch.stream('config').chance(1, 2):
                        # tasks that succeeded in the first call fail in the second
                        more = {str(n['id']): 'raise' for n in sc['nodes'] if ch.stream('fault').chance(1, 4)}
                        sc2['fail'] = {**more, **(sc.get('fail') or {})}
                        sc2.pop('kills', None)
                        sc2['fail'] = {k: ('raise' if v == 'die' else v) for k, v in sc2['fail'].items()}
                    out2 = execute(sc2, ch, None, built=out.built)
                    facts2 = O.Facts(sc2, out2)
                    for v in self.oracle(sc2, out2, facts2):
                        v['detail'] = '[second run_tasks call on the same task objects, other context] ' + v['detail']
                        v['sig']['second_call'] = True
                        vs.append(v)
                    second = True
        finally:
            shutil.rmtree(d, ignore_errors=True)
        r = self.record(sc, out, vs, ch)
        if second:
            r['probes']['second-call-same-objects'] = 1
        if built is not None:
            r['probes']['earlier-call-same-objects'] = 1
        if sc.get('earlier_interrupted'):
            r['probes']['earlier-interrupted-call-same-lab'] = 1
        return r

    owns_liveness = False
    second_call = False

    def record(self, sc, out, vs, ch, extra=None):
        capped = out.kind == 'abort' and out.abort in ('step-cap', 'vtime-cap', 'wait-cap')
        stale = out.kind == 'abort' and out.abort == 'stale-os-object'
        if stale:
            # harness limitation, decides nothing (see simos.live)
            vs = []
        if capped and not self.owns_liveness:
            # a run that hit a simulator cap decides nothing about this property (only C11 / C14 own liveness)
            vs = []
        r = result_record(self.id, sc, out, vs, ch, extra)
        if (capped and not self.owns_liveness) or stale:
            r['inconclusive'] = 1
        r['sample'] = {'spec': compact_spec(sc), 'completion_order': r['order'], 'faults': r['faults'],
                       'outcome': r['outcome'], 'schedule_digest': r['sched_digest']}
        return r

    def components(self):
        return REAL_VS_STUB


ALL_BACKENDS = [('serial', 2), ('sim', 5), ('fork', 4), ('spawn', 3)]
PAR_BACKENDS = [('sim', 5), ('fork', 4), ('spawn', 3)]


class C01(Check):
    id = 'C01'
    second_call = True
    expected_probes = ('second-call-same-objects',)

    def gen(self, ch, tier):
        sc = gen_scenario(ch, backends=ALL_BACKENDS, cache='sometimes', bust=True)
        sc['gen_pre'] = sc['gen_main'] = 1      # value must not depend on the cache pre-state
        cfg = ch.stream('config')
        if len(sc['requested']) == 1 and cfg.chance(1, 4):
            sc['run_task'] = True
        if cfg.chance(1, 5):
            # some tasks start a child process of their own through multiprocessing
            sc['mp_children'] = [n['id'] for n in sc['nodes'] if cfg.chance(1, 3)]
        return sc

    def oracle(self, sc, out, facts):
        return O.check_C01(sc, out, facts)


class C02(Check):
    id = 'C02'
    second_call = True
    expected_probes = ('second-call-same-objects',)

    def gen(self, ch, tier):
        sc = gen_scenario(ch, backends=ALL_BACKENDS, cache='sometimes', fail=1, die=True, cof=(True, True, False), bust=True, load_faults=True)
        return with_die_kills(sc, ch)

    def oracle(self, sc, out, facts):
        return O.check_C02(sc, out, facts)


class C03(Check):
    id = 'C03'
    expected_probes = ('second-call-same-lab',)

    def gen(self, ch, tier):
        return gen_scenario(ch, backends=ALL_BACKENDS, cache='always', bust=True, load_faults=True)

    def oracle(self, sc, out, facts):
        vs = O.check_C03(sc, out, facts)
        if out.kind != 'return':
            what = out.exc['type'] if out.exc else out.abort
            vs.append(O.V('C03', 'no-return', f'run_tasks did not return: {out.kind} {what}', exc=what))
        return vs

    def run(self, ch, workdir, tier):
        """One run_tasks call; in a third of the cases a second call on the same Lab object and the
        same task objects with another request list: what the first call cached must now be loaded."""
        sc = self.gen(ch, tier)
        cfg = ch.stream('config')
        d = tempfile.mkdtemp(dir=workdir)
        session: dict = {}
        second = False
        try:
            out = execute(sc, ch, d, session=session)
            if out.kind == 'warmup-failed':
                vs = [O.V(self.id, 'earlier-run-failed', f'the earlier serial run that creates the cache pre-state failed: '
                          f'{out.exc["type"]}: {out.exc["msg"][:200]}', exc=out.exc['type'])]
            else:
                facts = O.Facts(sc, out)
                vs = self.oracle(sc, out, facts)
                if not vs and out.kind == 'return' and cfg.chance(1, 3):
                    ref = facts.ref
                    now_cached = sorted(set(i for i in sc.get('cached', []) if ref.cacheable(i)) |
                                        {n for n in facts.executed if n in facts.ends and ref.cacheable(n)})
                    roots = [n['id'] for n in sc['nodes'] if cfg.chance(1, 2)] or [sc['nodes'][-1]['id']]
                    sc2 = {k: v for k, v in sc.items() if k not in ('bust_cache', 'run_task', 'load_faults', 'debris')}
                    sc2.update({'requested': [[i, 1 if cfg.chance(1, 3) else 0] for i in roots], 'cached': now_cached,
                                'skip_warm': True, 'gen_pre': sc.get('gen_main', 1)})
                    out2 = execute(sc2, ch, d, built=out.built, session=session)
                    second = True
                    if out2.kind == 'return':
                        facts2 = O.Facts(sc2, out2)
                        for v in O.check_C03(sc2, out2, facts2):
                            v['detail'] = '[second run_tasks call on the same Lab object] ' + v['detail']
                            v['sig']['second_call'] = True
                            vs.append(v)
        finally:
            st = session.get('sim_storage')
            if st is not None:
                st.release()
            shutil.rmtree(d, ignore_errors=True)
        r = self.record(sc, out, vs, ch)
        if second:
            r['probes']['second-call-same-lab'] = 1
        return r


class C04(Check):
    id = 'C04'

    def gen(self, ch, tier):
        sc = gen_scenario(ch, backends=[('serial', 1), ('sim', 4), ('fork', 5), ('spawn', 3)], cache='sometimes',
                          fail=1, die=True, max_nodes=10,
                          types=[('TA', 2), ('TB', 4), ('TC', 4), ('TD', 3), ('TN', 1), ('TN1', 3), ('TN2', 4), ('TP', 2), ('TF', 2), ('TS1', 2), ('TS2', 2)])
        sc['swarm']['gate_mode'] = 'hold'
        cfg = ch.stream('config')
        if cfg.chance(1, 2):
            # an earlier run in the same interpreter with another worker limit
            sc['prelude'] = {'max_workers': cfg.pick([3, None, 2, 1]), 'n': 3}
        return with_die_kills(sc, ch)

    def oracle(self, sc, out, facts):
        return O.check_C04(sc, out, facts)


class C05(Check):
    id = 'C05'
    expected_probes = ('rest-points-sim', 'rest-points-fork', 'rest-points-spawn', 'rest-points-serial')

    def gen(self, ch, tier):
        sc = gen_scenario(ch, backends=[('serial', 1), ('sim', 4), ('fork', 5), ('spawn', 3)], cache='sometimes',
                          fail=1, die=True, max_nodes=10,
                          types=[('TA', 3), ('TB', 3), ('TC', 4), ('TD', 3), ('TN', 2), ('TN1', 2), ('TN2', 3), ('TP', 2), ('TF', 2), ('TS1', 2), ('TS2', 2)])
        sc['swarm']['gate_mode'] = 'rest'
        sc['swarm']['w_timeout'] = 2
        cfg = ch.stream('config')
        if cfg.chance(1, 160):
            # a wide run: hundreds of independent tasks runnable at once on a runner without a worker limit
            # (capacity is "whatever is runnable": nothing may be held back, however long the backlog)
            n = 260 + cfg.draw(80)
            wide = [{'id': i, 'type': 'TA', 'tag': 'a', 'deps': ['t', []], 'opt': ['s', 'none', None]} for i in range(n)]
            sc = {k: sc[k] for k in ('cpu_count', 'cof', 'gen_pre', 'gen_main', 'swarm', 's1')}
            sc.update(nodes=wide, requested=[[i, 0] for i in range(n)], backend='sim', max_workers=None)
            return sc
        if cfg.chance(1, 4):
            sc['prelude'] = {'max_workers': cfg.pick([1, 2, 3, None]), 'n': 3}
        if sc['backend'] in ('fork', 'spawn') and cfg.chance(1, 4):
            # some task processes stay alive for a while after their task is over (non-daemon threads)
            sc['linger'] = {str(n['id']): cfg.pick([2.0, 4.0, 7.0]) for n in sc['nodes'] if cfg.chance(1, 3)}
        return with_die_kills(sc, ch)

    def oracle(self, sc, out, facts):
        return O.check_C05(sc, out, facts)

    def record(self, sc, out, vs, ch, extra=None):
        r = super().record(sc, out, vs, ch, extra)
        r['probes']['rest-points'] = getattr(out, 'rest_points', 0)
        r['probes']['rest-points-' + sc['backend']] = getattr(out, 'rest_points', 0)
        return r


class C10(Check):
    id = 'C10'
    owns_liveness = True      # the property itself states that run_tasks terminates
    principal_faults = ('task-raise',)

    def gen(self, ch, tier):
        sc = gen_scenario(ch, backends=ALL_BACKENDS, cache='sometimes', fail=2, die=True, cof=(True, False, True), bust=True)
        if ch.stream('config').chance(1, 4):
            sc['earlier_call'] = True       # the task objects have been through a successful run_tasks call before
        elif sc['backend'] != 'sim' and ch.stream('config').chance(1, 5):
            sc['earlier_interrupted'] = True    # the Lab object has been through an interrupted run_tasks call before
        if ch.stream('config').chance(1, 4):
            sc['progress'] = True               # progress bars and the task monitor (psutil readings of task processes)
        return with_die_kills(sc, ch)

    def oracle(self, sc, out, facts):
        return O.check_C10(sc, out, facts)


class C11(Check):
    id = 'C11'
    owns_liveness = True

    def gen(self, ch, tier):
        sc = gen_scenario(ch, backends=[('serial', 1), ('sim', 4), ('fork', 5), ('spawn', 3)], cache='sometimes',
                          fail=2, die=True, cof=(True, False, True), bust=True)
        cfg = ch.stream('config')
        if cfg.chance(1, 4):
            sc['max_workers'] = 1
        if cfg.chance(1, 3):
            sc['progress'] = True
        if cfg.chance(1, 4):
            # some tasks fork a helper process that outlives them
            sc['helpers'] = [n['id'] for n in sc['nodes'] if cfg.chance(1, 3)]
        if cfg.chance(1, 4):
            # some results are larger than a pipe buffer
            sc['shapes'] = {str(n['id']): 'big' for n in sc['nodes'] if n['type'] not in ('TR', 'TZ') and cfg.chance(1, 3)}
        sc = with_die_kills(sc, ch)
        if sc['backend'] in ('fork', 'spawn'):
            ft = ch.stream('fault')
            if ft.chance(1, 3):
                # workers killed after they queued their result / at random instants
                sc['kill_rate'] = ft.pick([40, 120, 400])
                sc['max_random_kills'] = 1 + ft.draw(3)
        return sc

    def oracle(self, sc, out, facts):
        return O.check_C11(sc, out, facts)


class C17(Check):
    id = 'C17'

    def gen(self, ch, tier):
        sc = gen_scenario(ch, backends=ALL_BACKENDS, cache='sometimes', fail=1, die=True, cof=(True,), bust=True)
        sc['retention'] = True
        return with_die_kills(sc, ch)

    def oracle(self, sc, out, facts):
        vs = O.check_C17(sc, out, facts)
        # "results of requested tasks are captured for the return value before release"
        for v in O.check_C10(sc, out, facts):
            if v['code'] in ('returned-set', 'value', 'raised-despite-continue'):
                vs.append(O.V('C17', 'requested-result-not-captured', v['detail'], **v['sig']))
        return vs

    def record(self, sc, out, vs, ch, extra=None):
        r = super().record(sc, out, vs, ch, extra)
        for k, v in (out.retention_stats or {}).items():
            r['probes']['retention-' + k] = v
        return r


CHECKS: dict[str, Check] = {c.id: c for c in [C01(), C02(), C03(), C04(), C05(), C10(), C11(), C17()]}


# ---------------------------------------------------------------- C16

def dir_fingerprint(path: str) -> dict:
    import hashlib
    out = {}
    for root, _dirs, files in os.walk(path):
        for f in files:
            if f == '.gitignore':
                continue
            full = os.path.join(root, f)
            with open(full, 'rb') as fh:
                out[os.path.relpath(full, path)] = hashlib.sha1(fh.read()).hexdigest()
    return out


class C16(Check):
    id = 'C16'
    quick_runs = 1200
    rule = ('distinct (specification digest, schedule digest) pairs with >=2 tasks in flight or >=1 fault fired; '
            'plus the fixed real-OS probe matrix (3 backends x 3 worker counts) run once per batch')
    expected_probes = ('context-filter-TP', 'ctx-storage-compare', 'process-started')

    def gen(self, ch, tier):
        sc = gen_scenario(ch, backends=ALL_BACKENDS, cache='sometimes', fail=1,
                          types=[('TA', 3), ('TB', 2), ('TC', 2), ('TD', 2), ('TN', 2), ('TP', 5), ('TR', 3), ('TF', 5)])
        cfg = ch.stream('config')
        if cfg.chance(1, 4):
            sc['caller_thread'] = True      # the calling process has another (idle) thread while it calls run_tasks
        if sc['backend'] in ('fork', 'spawn') and cfg.chance(1, 3):
            # an earlier run of the same interpreter used the other process backend
            sc['prelude'] = {'backend': 'spawn' if sc['backend'] == 'fork' else 'fork', 'max_workers': 2, 'n': 2}
        return sc

    def oracle(self, sc, out, facts):
        from .tasklib import ctx_view
        ref = facts.ref
        vs = []
        ctx = O.main_context(sc)
        backend = sc['backend']
        for n, ctxs in facts.begin_ctx.items():
            want = ctx_view(ref.filtered_context(n, ctx))
            for c in ctxs:
                if tuple(map(tuple, c)) != want:
                    vs.append(O.V('C16', 'context', f'node {n} ({ref.tname(n)}) saw context {c}, its filter_context(lab.context) is {want}',
                                  backend=backend))
                    break
        starts = [e for e in out.events if e[0] == 'pstart']
        if backend in ('serial',):
            if starts:
                vs.append(O.V('C16', 'serial-process', 'the serial backend started a process'))
            for n, who in facts.begin_who.items():
                if who != ['main']:
                    vs.append(O.V('C16', 'serial-thread', f'node {n} ran on {who}, not on the caller\'s thread'))
        elif backend in ('fork', 'spawn'):
            for e in starts:
                if e[3] != backend:
                    vs.append(O.V('C16', 'start-method', f'the {backend} backend started process {e[1]} with start method '
                                  f'{e[3]} (requested from: {e[2]})', backend=backend, effective=e[3], requested=e[2]))
                    break
            per_worker: dict[str, int] = {}
            for n, whos in facts.begin_who.items():
                for w in whos:
                    if w == 'main':
                        vs.append(O.V('C16', 'ran-in-caller', f'node {n} ran in the calling process under the {backend} backend'))
                    per_worker[w] = per_worker.get(w, 0) + 1
            if any(c > 1 for c in per_worker.values()):
                vs.append(O.V('C16', 'process-reused', f'a task process executed more than one task: {per_worker}'))
        if out.kind != 'return':
            what = out.exc['type'] if out.exc else out.abort
            vs.append(O.V('C16', 'no-return', f'run_tasks did not return: {what} {(out.exc or {}).get("msg", "")[:200]}', exc=what))
        if backend in ('serial', 'sim') and out.main_proc_name_after not in (None, 'MainProcess'):
            # in-process backends rename the caller's process while a task runs; it was 'MainProcess' before the call
            vs.append(O.V('C16', 'process-name-not-restored', f'after run_tasks the calling process is named {out.main_proc_name_after!r} '
                          f'(it was \'MainProcess\' before); failing tasks: {sorted(sc.get("fail") or {})}', backend=backend,
                          with_failures=bool(sc.get('fail'))))
        return vs

    def run(self, ch, workdir, tier):
        sc = self.gen(ch, tier)
        cfg = ch.stream('config')
        do_ctx = cfg.chance(1, 3)
        d = tempfile.mkdtemp(dir=workdir)
        extra_probes = {}
        try:
            out = execute(sc, ch, d)
            facts = O.Facts(sc, out)
            vs = self.oracle(sc, out, facts)
            if any(sc['nodes'][n]['type'] == 'TP' for n in facts.begins):
                extra_probes['context-filter-TP'] = 1
            if any(e[0] == 'pstart' for e in out.events):
                extra_probes['process-started'] = 1
            if do_ctx and not vs:
                draws = ch.recorded()
                prints = []
                for ctx in ({'alpha': 'A', 'beta': 2, 'gen': 1}, {'alpha': 'zzzz', 'beta': 99, 'gen': 7, 'extra': 'secret-context'}):
                    sc2 = self.gen(Choices(replay=draws), tier)
                    sc2['context'] = ctx
                    sc2['embed_ctx'] = False
                    sc2.pop('cached', None)
                    d2 = tempfile.mkdtemp(dir=workdir)
                    try:
                        o2 = execute(sc2, Choices(replay=draws), d2)
                        prints.append((dir_fingerprint(d2), sorted(o2.keys.values()), o2.kind))
                    finally:
                        shutil.rmtree(d2, ignore_errors=True)
                extra_probes['ctx-storage-compare'] = 1
                (fa, ka, oa), (fb, kb, ob) = prints
                if ka != kb:
                    vs.append(O.V('C16', 'context-in-key', 'cache keys differ between two runs that differ only in the Lab context'))
                elif fa != fb and oa == ob == 'return':
                    diff = sorted(set(fa.items()) ^ set(fb.items()))[:4]
                    vs.append(O.V('C16', 'context-in-storage', f'stored files differ between two runs that differ only in the Lab '
                                  f'context (task values do not use the context in these runs): {diff}'))
        finally:
            shutil.rmtree(d, ignore_errors=True)
        r = self.record(sc, out, vs, ch)
        r['probes'].update(extra_probes)
        return r

    def batch_extra(self, tier):
        """S3: the real-OS probe.  No schedule dependence at all; declared as a
        real-execution probe."""
        import json
        import subprocess
        import sys
        from . import REPO_DIR, VERIF_DIR
        vs = []
        samples = []
        n = 0
        env = dict(os.environ)
        env['VERIF_REPO'] = REPO_DIR
        env['PYTHONPATH'] = VERIF_DIR
        for backend_arg in ('serial', 'fork', 'spawn', 'fork+spawn', 'spawn+fork', 'spawn-c', 'fork-c'):
            # (the '-c' variants: the calling program is `python -c ...`, whose __main__ has no __file__ - as in a REPL
            # or a notebook kernel - and which keeps an idle helper thread alive while it calls run_tasks)
            dash_c = backend_arg.endswith('-c')
            backend_arg = backend_arg[:-2] if dash_c else backend_arg
            backend = backend_arg.split('+')[-1]
            for mw in (('1', '2', 'none') if (tier == 'thorough' and not dash_c) else (('2', 'none') if ('+' not in backend_arg and not dash_c) else ('2',))):
                if dash_c:
                    cmd = [sys.executable, '-c', 'import sys, threading; e = threading.Event(); '
                           'threading.Thread(target=e.wait, daemon=True).start(); '
                           f'from simlab import realprobe; rc = realprobe.main(["realprobe", {backend_arg!r}, {mw!r}]); e.set(); sys.exit(rc)']
                else:
                    cmd = [sys.executable, '-m', 'simlab.realprobe', backend_arg, mw]
                try:
                    p = subprocess.run(cmd, capture_output=True,
                                       text=True, timeout=120, env=env, cwd=VERIF_DIR)
                except subprocess.TimeoutExpired:
                    vs.append(O.V('C16', 'real-probe-timeout', f'real {backend} run with max_workers={mw} did not finish in 120 s', backend=backend))
                    continue
                line = [x for x in p.stdout.splitlines() if x.startswith('PROBE ')]
                if not line:
                    vs.append(O.V('C16', 'real-probe-failed', f'real {backend} run with max_workers={mw} failed: {p.stderr[-400:]}', backend=backend))
                    continue
                n += 1
                info = json.loads(line[0][6:])
                samples.append({'real_probe': backend_arg, 'max_workers': mw, 'first_result': info['results'][0]})
                caller = info['caller_pid']
                pids = [r['pid'] for r in info['results']]
                for r in info['results']:
                    want_ctx = {'keep': 'K', f'only{r["ident"]}': r['ident']}
                    if r['context'] != want_ctx:
                        vs.append(O.V('C16', 'real-context', f'{backend}: task {r["ident"]} saw context {r["context"]}, expected {want_ctx}', backend=backend))
                    if backend == 'serial':
                        if r['pid'] != caller or not r['main_thread']:
                            vs.append(O.V('C16', 'real-serial-process', f'serial backend ran task {r["ident"]} in pid {r["pid"]} '
                                          f'(caller {caller}), main_thread={r["main_thread"]}', backend=backend))
                    else:
                        if r['pid'] == caller or r['ppid'] != caller:
                            vs.append(O.V('C16', 'real-not-child', f'{backend} backend ran task {r["ident"]} in pid {r["pid"]} '
                                          f'ppid {r["ppid"]} (caller {caller})', backend=backend))
                        inherits = (r['global'] == 'mutated-by-parent')
                        if backend == 'fork' and not inherits:
                            vs.append(O.V('C16', 'real-fork-no-inherit', f'fork backend: task {r["ident"]} does not see the caller\'s memory '
                                          f'(module global = {r["global"]})', backend=backend))
                        if backend == 'spawn' and inherits:
                            vs.append(O.V('C16', 'real-spawn-shares-memory', f'spawn backend: task {r["ident"]} sees a module global the caller '
                                          f'mutated after import (process class {r["proc_class"]}): it was forked, not freshly started',
                                          backend=backend, effective='fork'))
                if backend != 'serial' and len(set(pids)) != len(pids):
                    vs.append(O.V('C16', 'real-process-reused', f'{backend} backend: tasks shared a process: {pids}', backend=backend))
        return vs, {'real_probe_runs': n, 'real_probe_samples': samples[:3]}


CHECKS['C16'] = C16()


# ---------------------------------------------------------------- C19

def gen_emit(ft, node: int) -> list:
    ops = []
    n = ft.weighted([2, 3, 3, 2, 1, 1])
    last_tok = {}
    for i in range(n):
        tok = f'tok{node}x{i}'
        k = ft.weighted([4, 3, 2, 2, 2, 1])
        kind = {0: 'log', 1: 'print', 2: 'err', 5: 'out'}.get(k)
        if kind in ('log', 'print', 'err') and kind in last_tok and ft.chance(1, 4):
            # the very same text again (a status line printed repeatedly): each copy is due
            tok = last_tok[kind]
        if kind is not None:
            last_tok[kind] = tok
        if k == 0:
            ops.append(['log', ft.pick(['info', 'warning', 'error']), tok])
        elif k == 1:
            ops.append(['print', tok])
        elif k == 2:
            ops.append(['err', tok + '\n'])
        elif k == 3:
            ops.append(['flush_out'])
        elif k == 4:
            ops.append(['flush_err'])
        else:
            ops.append(['out', 'part-' + tok])      # output that is never newline-terminated
    if ft.chance(1, 40):
        # a chatty task: many records between two polls of the coordinator
        ops.append(['burst', ft.pick([300, 1100, 2300])])
    if ft.chance(1, 6):
        ops.append(['die'])                         # the task's process dies right after (os._exit / SIGKILL)
    elif ft.chance(1, 5):
        ops.append(['raise'])                       # the task fails right after: what it wrote is due all the same
    return ops


def check_C19(sc, out, facts) -> list:
    vs = []
    left = facts.left_idx if facts.left_idx is not None else len(out.events)
    delivered = [e[2] for e in out.events[:left] if e[0] == 'log']
    late = [e[2] for e in out.events[left:] if e[0] == 'log']
    last_end = None
    for n, lst in facts.ends.items():
        if last_end is None or lst[0][0] > last_end[0]:
            last_end = (lst[0][0], n)
    # nodes whose process died while running: what they had only written into their own (proxied) stdout /
    # stderr buffers dies with them; logger records, and output they had explicitly flushed, were handed over
    died = {e[4] for e in out.events if e[0] == 'kill' and e[4] is not None}
    flushed_after: dict = {}
    emits = [(idx, e) for idx, e in enumerate(out.events) if e[0] == 'emit']
    for pos, (idx, e) in enumerate(emits):
        node, kind = e[1], e[2]
        if kind in ('print', 'out', 'err'):
            want = 'flush_err' if kind == 'err' else 'flush_out'
            flushed_after[idx] = any(e2[1] == node and e2[2] == want for _i2, e2 in emits[pos + 1:])
    # continue_on_failure=False: run_tasks raises at the first failure it processes.  Due are the messages of
    # the tasks whose completion the coordinator had processed by then, the failing one included (their output
    # was on the log queue before their result); tasks still in flight are abandoned.
    due_nodes = None
    if out.kind == 'raise':
        due_nodes = set()
        for e in out.events:
            if e[0] == 'complete':
                due_nodes.add(e[1])
                if len(e) > 2 and e[2] != 'ok':
                    break
    seen_tok = set()
    for idx, e in emits:
        node, kind, payload = e[1], e[2], e[3]
        if due_nodes is not None and node not in due_nodes:
            continue
        if kind == 'burst':
            # payload records, each with its own token, in order
            got = [m for m in delivered if m.startswith(f'bst{node}x')]
            want = [f'bst{node}x{j}x' for j in range(payload)]
            if got != want:
                missing = len(set(want) - set(got))
                dup = len(got) - len(set(got))
                code = 'lost' if missing else ('duplicated' if dup else 'reordered')
                vs.append(O.V('C19', code, f'burst of {payload} logger records of node {node}: {len(got)} delivered, {missing} missing, '
                              f'{dup} duplicated' + ('' if missing or dup else ', out of order'), kind='logger-burst'))
            continue
        if kind in ('flush_out', 'flush_err', 'die', 'raise') or payload is None:
            continue
        tok = payload.strip()
        if kind == 'out':
            tok = tok[len('part-'):]
        if tok in seen_tok:
            continue
        seen_tok.add(tok)
        # the same text may have been written several times: every copy is due
        same = [(i2, e2) for i2, e2 in emits if e2[2] == kind and e2[3] is not None and e2[1] == node
                and (e2[3].strip()[len('part-'):] if kind == 'out' else e2[3].strip()) == tok]
        written = len(same)
        count = sum(m.count(tok) for m in delivered)
        # everything a task wrote is due by the time run_tasks returns (a last fragment without a newline
        # included); for a task that died only what had left its process
        required = written
        if node in died and kind != 'log':
            required = sum(1 for i2, _e2 in same if flushed_after.get(i2, False))
        if count > written:
            vs.append(O.V('C19', 'duplicated', f'{kind} message {tok} of node {node} was written {written} time(s) and delivered {count} times', kind=kind))
        elif count < required:
            in_late = any(tok in m for m in late)
            vs.append(O.V('C19', 'lost', f'{kind} message {tok} of node {node} was written {written} time(s), {count} delivered before run_tasks returned'
                          + (' (it arrived later)' if in_late else '') +
                          f'; node finished {"last" if last_end and last_end[1] == node else "earlier"}',
                          kind=('logger' if kind == 'log' else ('fragment' if kind == 'out' else 'stream')),
                          last_finisher=bool(last_end and last_end[1] == node), task_died=(node in died)))
    in_worker = [e for e in out.events if e[0] == 'log-in-worker']
    if in_worker:
        vs.insert(0, O.V('C19', 'handled-in-worker', f'a handler of the caller\'s labtech logger handled {len(in_worker)} record(s) inside task '
                         f'process {in_worker[0][1]} (it is still attached there: a file or stream handler writes those records a '
                         f'second time)', which=in_worker[0][2]))
    return vs[:6]


class C19(Check):
    id = 'C19'
    quick_runs = 1200
    expected_probes = ('emitted-log', 'emitted-stream', 'flush-twice', 'last-finisher-emits', 'emitter-raises')

    def gen(self, ch, tier):
        sc = gen_scenario(ch, backends=[('fork', 1), ('spawn', 1)], cache='sometimes', max_nodes=6, cof=(True, True, False))
        ft = ch.stream('fault')
        sc['emit'] = {}
        for n in sc['nodes']:
            ops = gen_emit(ft, n['id'])
            if ops:
                sc['emit'][str(n['id'])] = ops
        return sc

    def oracle(self, sc, out, facts):
        vs = check_C19(sc, out, facts)
        raised_ok = (out.kind == 'raise' and not sc.get('cof', True) and out.exc and out.exc['type'] == 'LabError'
                     and any((e[0] == 'fault' and e[1] == 'raise') or e[0] == 'kill' for e in out.events))
        if raised_ok:
            pass        # a task failed and continue_on_failure is off: LabError is the specified outcome
        elif out.kind != 'return':
            what = out.exc['type'] if out.exc else out.abort
            vs.append(O.V('C19', 'no-return', f'run_tasks did not return: {what} {(out.exc or {}).get("msg", out.abort_detail)[:200]}', exc=what))
        return vs

    def record(self, sc, out, vs, ch, extra=None):
        r = super().record(sc, out, vs, ch, extra)
        kinds = [e[2] for e in out.events if e[0] == 'emit']
        if 'log' in kinds:
            r['probes']['emitted-log'] = 1
        if 'print' in kinds or 'err' in kinds:
            r['probes']['emitted-stream'] = 1
        if 'raise' in kinds:
            r['probes']['emitter-raises'] = 1
        for node in {e[1] for e in out.events if e[0] == 'emit'}:
            ks = [e[2] for e in out.events if e[0] == 'emit' and e[1] == node]
            if ks.count('flush_out') >= 2 or ks.count('flush_err') >= 2:
                r['probes']['flush-twice'] = 1
        ends = [(e, i) for i, e in enumerate(out.events) if e[0] == 'end']
        if ends:
            last_node = ends[-1][0][1]
            if any(e[0] == 'emit' and e[1] == last_node for e in out.events):
                r['probes']['last-finisher-emits'] = 1
        r['sample']['emit'] = sc.get('emit')
        r['nontrivial'] = bool(r['nontrivial'] or kinds)
        return r


def _c19_batch_extra(self, tier):
    """S3: the same kinds of messages on the real fork / spawn backends (task classes in __main__);
    a dependency chain fixes which task finishes last, so there is no timing dependence."""
    import json
    import subprocess
    import sys
    from . import REPO_DIR, VERIF_DIR
    vs = []
    samples = []
    n = 0
    env = dict(os.environ)
    env['PYTHONPATH'] = REPO_DIR
    for backend in ('fork', 'spawn'):
        for rep in range(1 if tier == 'quick' else 3):
            try:
                p = subprocess.run([sys.executable, os.path.join(VERIF_DIR, 'simlab', 'reallog.py'), backend], capture_output=True,
                                   text=True, timeout=180, env=env)
            except subprocess.TimeoutExpired:
                vs.append(O.V('C19', 'real-probe-timeout', f'real {backend} run did not finish in 180 s', backend=backend))
                continue
            line = [x for x in p.stdout.splitlines() if x.startswith('LOGPROBE ')]
            if not line:
                vs.append(O.V('C19', 'real-probe-failed', f'real {backend} run failed: {p.stderr[-300:]}', backend=backend))
                continue
            n += 1
            info = json.loads(line[0][9:])
            counts = info['counts']
            expected = info.get('expected') or {t: 1 for t in counts}
            samples.append({'real_backend': backend, 'delivered_counts': counts})
            lost = sorted(f'{t} ({c} of {expected[t]})' for t, c in counts.items() if c < expected[t])
            dup = sorted(f'{t} ({c} of {expected[t]})' for t, c in counts.items() if c > expected[t])
            if lost:
                vs.append(O.V('C19', 'real-lost', f'real {backend} backend: messages {lost} were not delivered before run_tasks returned',
                              backend=backend, last_finisher=any(t[3:4] == '3' for t in lost)))
            if dup:
                vs.append(O.V('C19', 'real-duplicated', f'real {backend} backend: messages {dup} were delivered more than once', backend=backend))
    return vs, {'real_log_runs': n, 'real_log_samples': samples[:2]}


C19.batch_extra = _c19_batch_extra
CHECKS['C19'] = C19()


# ---------------------------------------------------------------- C06

def stored_metas(sc: dict, storage_dir: str) -> dict:
    """(start, duration) recorded in the storage for every cached node, read by a new Lab through
    cached_tasks - independent of the task objects that took part in the runs."""
    import labtech
    from .execute import meta_tuple
    from .tasklib import get_type
    lab = labtech.Lab(storage=storage_dir, notebook=False, runner_backend='serial')
    types = [get_type(t) for t in sorted({n['type'] for n in sc['nodes']})]
    return {t.ident: meta_tuple(t.result_meta) for t in lab.cached_tasks(types)}


def participating(out) -> set:
    """Serials of the task objects that took part in a call: the requested ones and what they hold."""
    part = set()
    stack = list(out.requested_serials)
    while stack:
        sr = stack.pop()
        if sr not in part:
            part.add(sr)
            stack += out.instance_children.get(sr, [])
    return part


def meta_vs_storage(sc: dict, out, nodes, storage_dir: str, what: str) -> list:
    """result_meta on the task objects that took part equals what the storage holds for their task."""
    vs = []
    try:
        stored = stored_metas(sc, storage_dir)
    except Exception as ex:   # noqa
        return [O.V('C06', 'stored-meta-unreadable', f'{what}: cached_tasks failed: {type(ex).__name__}: {str(ex)[:160]}')]
    part = participating(out)
    for n in nodes:
        want = stored.get(n)
        if want is None:
            continue
        for serial, m in out.metas.get(n, []):
            if serial in part and m is not None and list(m) != list(want):
                vs.append(O.V('C06', 'meta-differs', f'{what}: a task object of node {n} carries result_meta {m}, the storage holds {want}',
                              backend2=sc['backend'], versus='storage'))
                return vs
    return vs


def phase2_check(sc2: dict, storage_dir: str, metas1: dict, seed: str, built=None) -> dict:
    """Second run over a populated storage (same or fresh interpreter)."""
    from .execute import observe_cache
    ref = Ref(sc2)
    vs = []
    cached_now = observe_cache(sc2, storage_dir)
    for n in sc2.get('cached', []):
        if cached_now.get(n) is not True:
            vs.append(O.V('C06', 'not-cached', f'node {n} ({ref.tname(n)}) executed successfully under a caching Lab but is_cached says {cached_now.get(n)}',
                          backend2=sc2['backend']))
    ch2 = Choices(seed=seed)
    out2 = execute(sc2, ch2, storage_dir, built=built)
    facts2 = O.Facts(sc2, out2)
    for v in O.check_C01(sc2, out2, facts2) + O.check_C03(sc2, out2, facts2):
        if v['code'] in ('value', 'keys', 'no-return', 'execute-set', 'load-set', 'executed-twice', 'executed-and-loaded'):
            vs.append(O.V('C06', 'second-run-' + v['code'], v['detail'], backend2=sc2['backend'], **{k: x for k, x in v['sig'].items() if k not in ('backend2',)}))
    # result_meta of loaded nodes equals the originally recorded start and duration
    part2 = participating(out2)
    for n in facts2.loaded:
        want = metas1.get(str(n)) or metas1.get(n)
        for serial, m in out2.metas.get(n, []):
            if serial in part2 and m is not None and want is not None and list(m) != list(want):
                vs.append(O.V('C06', 'meta-differs', f'node {n}: result_meta after the cache hit is {m}, originally recorded {want}',
                              backend2=sc2['backend']))
                break
    if not vs and built is not None:
        vs += meta_vs_storage(sc2, out2, facts2.loaded, storage_dir, 'after a cache hit on task objects that were used before')
    return {'violations': vs, 'event_digest': out2.digest(), 'begins': facts2.executed, 'loaded': facts2.loaded,
            'outcome': out2.kind}


def phase2_main() -> int:
    """Entry point of the fresh interpreter (other PYTHONHASHSEED)."""
    import json
    import sys
    job = json.loads(sys.stdin.read())
    real_stdout = os.fdopen(os.dup(1), 'w')
    sys.stdout = open(os.devnull, 'w')
    res = phase2_check(job['sc2'], job['dir'], job['metas1'], job['seed'])
    real_stdout.write('PHASE2 ' + json.dumps(res, default=repr) + '\n')
    real_stdout.flush()
    return 0


class C06(Check):
    id = 'C06'
    quick_runs = 1200
    expected_probes = ('fresh-interpreter', 'cross-backend', 'real-clock-first-run', 'bust-then-hit', 'zero-duration-recorded')
    rule = ('distinct (specification digest, first-run schedule digest, second-run backend) histories of first run / second run '
            '(/ third run in a fresh interpreter with another hash seed); non-trivial = at least one cacheable task was loaded in the second run')

    def gen(self, ch, tier):
        sc = gen_scenario(ch, backends=ALL_BACKENDS, cache='never',
                          types=[('TA', 4), ('TB', 2), ('TC', 2), ('TD', 3), ('TN', 2), ('TP', 2), ('TZ', 1), ('TW', 1)])
        sc['gen_main'] = 1
        cfg = ch.stream('config')
        if sc['backend'] in ('serial', 'sim') and cfg.chance(1, 4):
            sc['real_clock'] = True
        elif cfg.chance(1, 3):
            # a clock whose resolution is above the running time of a task: recorded durations of zero
            sc['coarse_clock'] = True
        return sc

    def run(self, ch, workdir, tier):
        import json
        import subprocess
        import sys
        from . import REPO_DIR, VERIF_DIR
        sc1 = self.gen(ch, tier)
        cfg = ch.stream('config')
        backend2 = ALL_BACKENDS[cfg.weighted([w for _, w in ALL_BACKENDS])][0]
        fresh = cfg.chance(1, 6)
        # in half of the histories the same task objects go through every in-process step
        from .spec import Built
        built = Built(sc1) if cfg.chance(1, 2) else None
        d = tempfile.mkdtemp(dir=workdir)
        probes = {}
        if built is not None:
            probes['same-task-objects'] = 1
        try:
            out1 = execute(sc1, ch, d, built=built)
            facts1 = O.Facts(sc1, out1)
            vs = []
            for v in O.check_C01(sc1, out1, facts1):
                vs.append(O.V('C06', 'first-run-' + v['code'], v['detail']))
            ref = facts1.ref
            executed_ok = [n for n in facts1.executed if n in facts1.ends and ref.cacheable(n)]
            metas1 = {}
            part1 = participating(out1)
            for n in executed_ok:
                ms = [m for _s, m in out1.metas.get(n, []) if m is not None and _s in part1]
                if ms:
                    metas1[str(n)] = list(ms[0])
            sc2 = {k: v for k, v in sc1.items() if k not in ('real_clock',)}
            sc2['backend'] = backend2
            sc2['cached'] = executed_ok
            sc2['skip_warm'] = True
            sc2['gen_pre'] = 1          # the context of the first run
            sc2['gen_main'] = 2         # a re-execution would be visible in the value
            if not vs and out1.kind == 'return':
                vs += meta_vs_storage(sc1, out1, executed_ok, d, 'after the first run')
                res = phase2_check(sc2, d, metas1, f'p2:{out1.digest()}', built=built)
                vs += res['violations']
                if res['loaded']:
                    probes['second-run-loaded'] = len(res['loaded'])
                if backend2 != sc1['backend']:
                    probes['cross-backend'] = 1
                if sc1.get('real_clock'):
                    probes['real-clock-first-run'] = 1
                if any(m[1] == 0 for m in metas1.values()):
                    probes['zero-duration-recorded'] = 1
                if not vs and cfg.chance(1, 3):
                    # history continues in the same interpreter: re-execution with bust_cache replaces the
                    # entries (values and metadata of a new generation), and a later hit must return those
                    sc3 = dict(sc2)
                    sc3.update({'bust_cache': True, 'gen_main': 3, 'backend': ALL_BACKENDS[cfg.weighted([w for _, w in ALL_BACKENDS])][0]})
                    out3 = execute(sc3, Choices(seed=f'p2b:{out1.digest()}'), d, built=built)
                    facts3 = O.Facts(sc3, out3)
                    if out3.kind == 'return':
                        vs += meta_vs_storage(sc3, out3, [n for n in facts3.executed if n in facts3.ends and ref.cacheable(n)], d,
                                              'after a bust_cache re-execution' + (' on task objects that were used before' if built is not None else ''))
                        metas3 = {}
                        done3 = [n for n in facts3.executed if n in facts3.ends and ref.cacheable(n)]
                        part3 = participating(out3)
                        for n in done3:
                            ms = [m for _s, m in out3.metas.get(n, []) if m is not None and _s in part3]
                            if ms:
                                metas3[str(n)] = list(ms[0])
                        sc4 = dict(sc2)
                        sc4.update({'cached': done3, 'gen_pre': 3, 'gen_main': 4,
                                    'backend': ALL_BACKENDS[cfg.weighted([w for _, w in ALL_BACKENDS])][0]})
                        res4 = phase2_check(sc4, d, metas3, f'p2c:{out1.digest()}', built=built)
                        for v in res4['violations']:
                            v['detail'] = '[after a bust_cache re-execution in the same interpreter] ' + v['detail']
                            v['sig']['after_bust'] = True
                            vs.append(v)
                        probes['bust-then-hit'] = 1
                        sc2, metas1 = sc4, metas3        # what a later (fresh-interpreter) run must now see
                if fresh and not vs:
                    # third history step in a fresh interpreter under another hash seed
                    env = dict(os.environ)
                    my = int(os.environ.get('PYTHONHASHSEED', '0') or 0)
                    env['PYTHONHASHSEED'] = str((my * 7 + 11) % 4096 + 1)
                    env['VERIF_REPO'] = REPO_DIR
                    env['PYTHONDONTWRITEBYTECODE'] = '1'
                    job = {'sc2': sc2, 'dir': d, 'metas1': metas1, 'seed': f'p3:{out1.digest()}'}
                    p = subprocess.run([sys.executable, os.path.join(VERIF_DIR, 'check'), '_phase2'], input=json.dumps(job),
                                       capture_output=True, text=True, env=env, timeout=120)
                    line = [x for x in p.stdout.splitlines() if x.startswith('PHASE2 ')]
                    if not line:
                        raise RuntimeError(f'fresh-interpreter phase failed: {p.stderr[-1500:]}')
                    res3 = json.loads(line[0][7:])
                    probes['fresh-interpreter'] = 1
                    for v in res3['violations']:
                        v['sig']['fresh_interpreter'] = True
                        v['detail'] += f' [fresh interpreter, PYTHONHASHSEED={env["PYTHONHASHSEED"]}]'
                        vs.append(v)
        finally:
            shutil.rmtree(d, ignore_errors=True)
        r = self.record(sc1, out1, vs, ch)
        r['probes'].update(probes)
        r['nontrivial'] = bool(probes.get('second-run-loaded'))
        r['spec_digest'] = r['spec_digest'] + ':' + backend2
        r['sample']['second_run_backend'] = backend2
        return r


def _c06_batch_extra(self, tier):
    """S3: first run / second run on the real backends with task classes defined in the
    __main__ script.  No schedule dependence; declared as a real-execution probe."""
    import json
    import subprocess
    import sys
    from . import REPO_DIR, VERIF_DIR
    from .driver import scratch_root
    vs = []
    samples = []
    pairs = [('spawn', 'fork'), ('fork', 'spawn'), ('spawn', 'serial')]
    if tier == 'thorough':
        pairs += [('serial', 'spawn'), ('spawn', 'spawn'), ('fork', 'fork'), ('serial', 'fork')]
    n = 0
    for b1, b2 in pairs:
        d = tempfile.mkdtemp(prefix='simlab-c06real-', dir=scratch_root())
        try:
            env = dict(os.environ)
            env['PYTHONPATH'] = REPO_DIR
            try:
                p = subprocess.run([sys.executable, os.path.join(VERIF_DIR, 'simlab', 'realcache.py'), b1, b2, d],
                                   capture_output=True, text=True, timeout=180, env=env, cwd=d)
            except subprocess.TimeoutExpired:
                vs.append(O.V('C06', 'real-probe-timeout', f'real {b1} -> {b2} history did not finish in 180 s', first=b1, second=b2))
                continue
            line = [x for x in p.stdout.splitlines() if x.startswith('CACHEPROBE ')]
            if not line:
                vs.append(O.V('C06', 'real-probe-failed', f'real {b1} -> {b2} history failed: {p.stderr[-300:]}', first=b1, second=b2))
                continue
            n += 1
            info = json.loads(line[0][11:])
            samples.append({'real_history': [b1, b2], 'executed_second': info['executed_second']})
            want = [{'sum': 3, 'label': 'x'}, {'leaf': 1}]
            if info['first'] != want:
                vs.append(O.V('C06', 'real-first-run-value', f'{b1}: first run returned {info["first"]}', first=b1, second=b2))
            if not all(info['is_cached_after_first'].values()):
                vs.append(O.V('C06', 'real-not-cached', f'after a successful first run under {b1} (task classes defined in __main__) '
                              f'is_cached says {info["is_cached_after_first"]}', first=b1, second=b2))
            if info['second'] != want:
                vs.append(O.V('C06', 'real-second-run-value', f'{b1} -> {b2}: second run returned {info["second"]}', first=b1, second=b2))
            if info['executed_second']:
                vs.append(O.V('C06', 'real-second-run-executed', f'{b1} -> {b2}: the second run called run() again for {info["executed_second"]}',
                              first=b1, second=b2))
            if info['meta_first'] != info['meta_second']:
                vs.append(O.V('C06', 'real-meta-differs', f'{b1} -> {b2}: result_meta {info["meta_second"]} != originally recorded {info["meta_first"]}',
                              first=b1, second=b2))
        finally:
            shutil.rmtree(d, ignore_errors=True)
    return vs, {'real_history_runs': n, 'real_history_samples': samples[:3]}


C06.batch_extra = _c06_batch_extra
CHECKS['C06'] = C06()
