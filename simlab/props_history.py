"""C08 (the cache evolves like a map) and C09 (cached_tasks reconstructs every
cached task faithfully): a stateful model check over generated histories of
run / run(bust_cache) / uncache / is_cached / cached_tasks / probe-run / new Lab,
compared step by step with a plain reference dictionary.
"""
from __future__ import annotations

import os
import shutil
import tempfile
from typing import Any, Optional

import labtech

from . import oracles as O
from . import probe as probe_mod
from .choices import Choices
from .execute import Rec, _LoadProbe, execute, meta_tuple, quiet_logger, restore_logger
from .props import Check, compact_spec, gen_s1, result_record
from .spec import SCALARS, Built, Ref, gen_dag, tree_refs
from .tasklib import TYPE_INFO, LocalFsspecStorage, MemFsspecStorage, Value, canon, get_type

RICH_SCALARS = [
    ['s', 'str', ''], ['s', 'str', 'ünï©ødé ✓ 漢字'], ['s', 'str', '{"a": [1, "\\""], "_is_task": true}'], ['s', 'str', 'line\nbreak\ttab'],
    ['s', 'int', 10 ** 30], ['s', 'int', -17], ['s', 'int', 0], ['s', 'float', 1.5], ['s', 'float', 'inf'], ['s', 'float', '-inf'],
    ['s', 'float', 1e-300], ['s', 'none', None], ['s', 'bool', False], ['s', 'enum', ['Color', 'BLUE']], ['s', 'enum', ['Mode', 'FAST']],
    ['s', 'str', 'pickle__TA__0000'], ['s', 'float', 2.0], ['s', 'enum', ['Level', 'HIGH']], ['s', 'enum', ['Kind', 'IRIS']],
    ['s', 'str', 'undecodable-\udcff\udce9.csv'],      # what os.fsdecode() makes of a file name that is not valid UTF-8
]
RICH_KEYS = ['k', 'key with space', 'ü', 'a.b', 'Z', 'z', '0']

_MEM_SEQ = [0]


def gen_rich_tree(st, depth: int = 0):
    k = st.weighted([6, 2, 2, 2]) if depth < 3 else 0
    if k == 0:
        return list(st.pick(RICH_SCALARS))
    n = st.draw(4)
    if k == 1:
        return ['t', [gen_rich_tree(st, depth + 1) for _ in range(n)]]
    if k == 2:
        return ['l', [gen_rich_tree(st, depth + 1) for _ in range(n)]]
    keys = st.shuffle(RICH_KEYS)[:n]
    return ['d', [[key, gen_rich_tree(st, depth + 1)] for key in keys]]


class Model:
    """The reference map: node -> (stored value, stored meta)."""

    def __init__(self):
        self.entries: dict[int, tuple[Value, Any]] = {}


_SWAP = {'TW': 'TA', 'TA': 'TA2', 'TA2': 'TA', 'Node': 'NodeX', 'NodeX': 'Node', 'TB': 'TC', 'TC': 'TB', 'TD': 'TA', 'TN': 'TN1',
         'TN1': 'TN', 'TN2': 'TN', 'TF': 'TA', 'TZ': 'TA', 'TR': 'TA'}
_NAME_OF = None


def _type_name(cls):
    global _NAME_OF
    if _NAME_OF is None:
        _NAME_OF = {get_type(n): n for n in list(_SWAP)}
    return _NAME_OF.get(cls)


def _reclass(task, new_name):
    return get_type(new_name)(ident=task.ident, tag=task.tag, deps=task.deps, opt=task.opt)


def _swap_first_dep(v, done):
    """Copy of a parameter value with the first nested task replaced by a task of another class with the same fields."""
    if hasattr(type(v), '_lt') and hasattr(v, 'cache_key'):
        name = _type_name(type(v))
        if not done[0] and name in _SWAP:
            done[0] = f'{name}->{_SWAP[name]}'
            return _reclass(v, _SWAP[name])
        return v
    if isinstance(v, tuple):
        return tuple(_swap_first_dep(x, done) for x in v)
    if isinstance(v, list):
        return [_swap_first_dep(x, done) for x in v]
    if hasattr(v, 'items'):
        return {k: _swap_first_dep(x, done) for k, x in v.items()}
    return v


def lookalikes(task):
    """(description, task) pairs: never-run tasks that differ from `task` only in a class identity."""
    out = []
    name = _type_name(type(task))
    if name is None:
        return out
    done = [None]
    deps = _swap_first_dep(task.deps, done)
    if done[0]:
        out.append((f'the class of a nested dependency: {done[0]}', type(task)(ident=task.ident, tag=task.tag, deps=deps, opt=task.opt)))
    if name in ('TA', 'TA2', 'Node', 'NodeX'):
        out.append((f'its own class: {name}->{_SWAP[name]}', _reclass(task, _SWAP[name])))
    return out


class HistoryCheck(Check):
    level = 'exploration'
    quick_runs = 800
    thorough_runs = 8000
    providers = ['local', 'fsspec-local', 'fsspec-mem', 'none']
    types = [('TA', 4), ('TB', 2), ('TD', 3), ('TN', 2), ('TP', 2), ('TN1', 1), ('TZ', 1), ('TW', 1)]
    rich = False
    max_ops = 10
    rule = ('histories of up to 10 operations (run / run with bust_cache / uncache / cached_tasks / probe-run / new Lab) over a generated '
            'universe of <= 7 nodes; distinct = distinct (universe digest, operation sequence digest, storage provider); '
            'non-trivial = the history contains at least one run that stored something and one later observation')
    expected_probes = ('op-run', 'op-bust', 'op-uncache', 'op-probe', 'op-new-lab', 'provider-fsspec-mem', 'provider-fsspec-local',
                       'provider-local')

    def make_storage(self, provider: str, d: str):
        if provider == 'none':
            return None
        if provider == 'local':
            return d
        if provider == 'fsspec-local':
            return LocalFsspecStorage(d)
        _MEM_SEQ[0] += 1
        return MemFsspecStorage(f'/simlab-mem/{os.getpid()}-{_MEM_SEQ[0]}')

    def gen_universe(self, ch):
        st = ch.stream('spec')
        nodes = gen_dag(st, max_nodes=7, types=self.types, max_depth=3)
        if self.rich:
            for n in nodes:
                if st.chance(2, 3):
                    n['opt'] = gen_rich_tree(st)
        return nodes

    def run(self, ch, workdir, tier):
        nodes = self.gen_universe(ch)
        cfg = ch.stream('config')
        ops = ch.stream('ops')
        provider = cfg.pick(self.providers)
        d = tempfile.mkdtemp(dir=workdir)
        storage = self.make_storage(provider, d)
        base = {'nodes': nodes, 'requested': [], 'max_workers': cfg.pick([1, 2, None]), 'cpu_count': 2, 'cof': True,
                's1': gen_s1(cfg)}
        ref = Ref(base)
        all_ids = sorted(ref.nodes)
        model: dict[int, tuple[Value, Any]] = {}
        vs: list[dict] = []
        history = []
        probes: dict[str, int] = {f'provider-{provider}': 1}
        events_all: list = []
        rec = Rec()
        saved = quiet_logger(rec)
        lab_holder: list = [None]

        def lab():
            if session.get('lab') is not None:
                return session['lab']        # the same Lab object that ran the tasks (a per-Lab memo must stay coherent)
            if lab_holder[0] is None:
                lab_holder[0] = labtech.Lab(storage=storage, notebook=False, runner_backend='serial', continue_on_failure=False)
            return lab_holder[0]

        originals = Built({**base, 'requested': []})
        universe = Built({**base, 'requested': []})     # task objects that live for the whole history
        session: dict = {}                               # the Lab object (and its storage wrapper) currently in use
        lab_gen = [0]
        stored_any = False

        def end_session():
            st = session.get('sim_storage')
            if st is not None:
                st.release()
            session.clear()
            lab_holder[0] = None
            lab_gen[0] += 1
        try:
            n_ops = 2 + ops.draw(self.max_ops - 1)
            for step in range(n_ops):
                if vs:
                    break
                kind = ops.weighted([6, 2, 3, 2, 2, 2])    # run, bust-run, uncache, cached_tasks subset, probe, new lab
                if kind in (0, 1):
                    roots = [i for i in all_ids if ops.chance(1, 3)] or [ops.pick(all_ids)]
                    bust = (kind == 1)
                    backend = ops.pick(['serial', 'sim', 'serial', 'sim', 'spawn', 'fork']) if provider != 'fsspec-mem' else ops.pick(['serial', 'sim'])
                    history.append(['run', roots, bust, backend])
                    probes['op-bust' if bust else 'op-run'] = 1
                    have = set() if provider == 'none' else set(model)
                    ex_set, ld_set = ref.plan(have, bust, roots=sorted(set(roots)))
                    fail = {}
                    if ops.chance(1, 4):
                        fail = {str(n): 'raise' for n in ex_set if ops.chance(1, 3)}
                        if fail:
                            probes['op-run-with-failures'] = 1
                    failed = ref.failing(ex_set, {int(k) for k in fail})
                    gen = 100 + lab_gen[0]          # the context belongs to the Lab object
                    sc = dict(base)
                    if len(roots) == 1 and not fail and ops.chance(1, 2):
                        sc['run_task'] = True          # through Lab.run_task() instead of run_tasks()
                        probes['op-run_task'] = 1
                    else:
                        sc.pop('run_task', None)
                    sc.update({'requested': [[i, 1 if ops.chance(1, 4) else 0] for i in roots], 'backend': backend,
                               'bust_cache': bust, 'gen_main': gen, 'skip_warm': True, 'observe_after': False,
                               'observe_before': False, 'cached': sorted(model), 'fail': fail})
                    history[-1].append(sorted(int(k) for k in fail))
                    restore_logger(saved)
                    try:
                        if provider == 'none':
                            out = execute(sc, ch, None, built=universe, session=session)
                        elif provider == 'local':
                            out = execute(sc, ch, d, built=universe, session=session)
                        else:
                            out = execute(sc, ch, d, storage_obj=storage, built=universe, session=session)
                    finally:
                        saved = quiet_logger(rec)
                    events_all += out.events
                    facts = O.Facts(sc, out)
                    ctx = {'alpha': 'A', 'beta': 2, 'gen': gen}
                    exp = ref.evaluate(ctx, loaded={n: model[n][0] for n in ld_set},
                                       roots=[r for r in ref.closure(roots) if r not in failed])
                    if out.kind != 'return':
                        what = out.exc['type'] if out.exc else out.abort
                        vs.append(O.V(self.id, 'run-failed', f'step {step} run{roots} bust={bust}: run_tasks did not return: {what} '
                                      f'{(out.exc or {}).get("msg", "")[:200]}', exc=what, provider=provider))
                        break
                    got = {n: v for n, v in out.returned}
                    want_keys = [n for n in dict.fromkeys(roots) if n not in failed]
                    if list(got) != want_keys:
                        vs.append(O.V(self.id, 'run-returned-set', f'step {step} run{roots} bust={bust} failing={sorted(failed)}: returned '
                                      f'{list(got)}, expected {want_keys}', provider=provider, bust=bust, with_failures=bool(failed)))
                    for n in got:
                        if n in exp and got[n] != exp[n]:
                            vs.append(O.V(self.id, 'run-value', f'step {step} run{roots} bust={bust}: node {n} returned {got[n]!r}, '
                                          f'the reference map/evaluator says {exp[n]!r}', provider=provider, bust=bust))
                            break
                    if facts.executed != ex_set:
                        vs.append(O.V(self.id, 'run-executed-set', f'step {step} run{roots} bust={bust}: executed {facts.executed}, the '
                                      f'reference map says {ex_set} must run (cached: {sorted(have)})', provider=provider, bust=bust,
                                      extra=bool(set(facts.executed) - set(ex_set)), missing=bool(set(ex_set) - set(facts.executed))))
                    if provider != 'none':
                        # result_meta as set on the instances that took part in this call
                        meta_of = {}
                        for n, lst in out.metas.items():
                            for serial, m in lst:
                                meta_of[serial] = m
                        run_meta: dict[int, Any] = {}
                        stack = list(out.requested_serials)
                        seen = set()
                        while stack:
                            sr = stack.pop()
                            if sr in seen:
                                continue
                            seen.add(sr)
                            nn = out.instance_node[sr]
                            if meta_of.get(sr) is not None:
                                run_meta.setdefault(nn, meta_of[sr])
                            if nn in ex_set:
                                stack += out.instance_children.get(sr, [])
                        for n in ex_set:
                            if ref.cacheable(n) and n not in failed:
                                model[n] = (exp[n], run_meta.get(n))
                                stored_any = True
                elif kind == 2:
                    targets = [i for i in all_ids if ops.chance(1, 3)] or [ops.pick(all_ids)]
                    if ops.chance(1, 3):
                        # the same task named twice (the same object or an equal one)
                        targets.insert(ops.draw(len(targets) + 1), ops.pick(targets))
                    history.append(['uncache', targets])
                    probes['op-uncache'] = 1
                    try:
                        lab().uncache_tasks([originals.get(i, 1) for i in targets])
                    except Exception as ex:
                        vs.append(O.V(self.id, 'uncache-raises', f'step {step} uncache{targets}: {type(ex).__name__}: {str(ex)[:160]}',
                                      provider=provider))
                        break
                    for i in targets:
                        model.pop(i, None)
                elif kind == 5:
                    history.append(['new-lab'])
                    probes['op-new-lab'] = 1
                    end_session()
                elif kind == 4:
                    history.append(['probe-run'])
                    probes['op-probe'] = 1
                    vs += self.probe_run(ref, model, lab(), step, provider)
                    if not vs and provider != 'none' and ops.chance(1, 2):
                        probes['op-numeric-twins'] = 1
                        vs += self.numeric_twins(lab(), step, provider)
                else:
                    history.append(['cached_tasks-subset'])
                # observations after every operation
                if not vs:
                    vs += self.observe(ref, model, lab(), originals, step, provider, ops, probes, history)
        finally:
            restore_logger(saved)
            end_session()
            shutil.rmtree(d, ignore_errors=True)
            if provider == 'fsspec-mem' and storage is not None:
                try:
                    storage.fs_constructor().rm(str(storage._storage_path), recursive=True)
                except Exception:
                    pass
        sc_desc = {'nodes': nodes, 'provider': provider, 'history': history}
        hd = O.digest_of_case(history)
        r = {
            'prop': self.id, 'violations': vs[:4], 'spec_digest': O.digest_of_case(nodes) + ':' + provider,
            'sched_digest': hd, 'event_digest': O.digest_of_case([hd, O.digest_of_case(events_all)]),
            'order': [], 'nontrivial': bool(stored_any and len(history) >= 2), 'faults': {}, 'probes': probes,
            'vtime': 0.0, 'steps': 0, 'backend': 'serial+sim', 'outcome': 'history', 'n_events': len(events_all), 'leaked': 0,
            'sample': sc_desc,
        }
        return r

    # -- observations
    def observe(self, ref, model, lab, originals, step, provider, ops, probes, history) -> list:
        vs = []
        where = f'after step {step} {history[-1]}'
        for i in sorted(ref.nodes):
            t = originals.get(i, 1)
            try:
                got = bool(lab.is_cached(t))
            except Exception as ex:
                return [O.V(self.id, 'is_cached-raises', f'{where}: is_cached(node {i}) raised {type(ex).__name__}: {str(ex)[:120]}',
                            provider=provider)]
            want = i in model
            if got != want:
                return [O.V(self.id, 'is_cached-differs', f'{where}: is_cached(node {i} {ref.tname(i)}) is {got}, the reference map says {want}',
                            provider=provider, got=got, cacheable=ref.cacheable(i))]
        # look-alikes of cached tasks - tasks that were never run and differ from a cached one only in the
        # class of a nested dependency, or in their own class (same name, other module) - are not cached
        for i in sorted(model)[:3]:
            for what, twin in lookalikes(originals.get(i, 1)):
                try:
                    got = bool(lab.is_cached(twin))
                except Exception as ex:
                    return [O.V(self.id, 'is_cached-raises', f'{where}: is_cached(look-alike of node {i}) raised {type(ex).__name__}: '
                                f'{str(ex)[:120]}', provider=provider)]
                probes['look-alike-checked'] = probes.get('look-alike-checked', 0) + 1
                if got:
                    return [O.V(self.id, 'look-alike-cached', f'{where}: node {i} ({ref.tname(i)}) is cached; a task that was never run and '
                                f'differs from it only in {what} is reported cached as well: {twin!r:.300}', provider=provider,
                                what=what.split(':')[0])]
        # cached_tasks: all types, or a drawn subset of types
        type_names = sorted({ref.tname(i) for i in ref.nodes})
        asked = type_names if ops.chance(2, 3) else [t for t in type_names if ops.chance(1, 2)]
        if not asked:
            return vs
        if ops.chance(1, 4):
            # a type named twice: every cached task is still listed exactly once
            asked = asked + [ops.pick(asked)]
            probes['type-named-twice'] = 1
        try:
            listed = list(lab.cached_tasks([get_type(t) for t in asked]))
        except Exception as ex:
            return [O.V(self.id, 'cached_tasks-raises', f'{where}: cached_tasks({asked}) raised {type(ex).__name__}: {str(ex)[:160]}',
                        provider=provider, exc=type(ex).__name__)]
        want_nodes = sorted(i for i in model if ref.tname(i) in set(asked))
        got_nodes = []
        for t in listed:
            ident = getattr(t, 'ident', None)
            orig = originals.get(ident, 1) if ident in ref.nodes else None
            if orig is None or not (t == orig) or canon(t) != canon(orig):
                vs.append(O.V(self.id, 'reconstructed-differs', f'{where}: cached_tasks returned {t!r:.300}, which equals no cached task (value by value, type by type) '
                              f'(original of node {ident}: {orig!r:.300})', provider=provider, type=type(t).__name__))
                return vs
            got_nodes.append(ident)
            if t.cache_key != orig.cache_key:
                vs.append(O.V(self.id, 'reconstructed-key', f'{where}: reconstructed node {ident} has cache_key {t.cache_key}, original {orig.cache_key}',
                              provider=provider))
            if ident in model and meta_tuple(t.result_meta) != (tuple(model[ident][1]) if model[ident][1] else None):
                vs.append(O.V(self.id, 'reconstructed-meta', f'{where}: reconstructed node {ident} carries result_meta {meta_tuple(t.result_meta)}, '
                              f'stored {model[ident][1]}', provider=provider))
            if type(t).__name__ not in [get_type(a).__name__ for a in asked] or type(t) not in [get_type(a) for a in asked]:
                vs.append(O.V(self.id, 'listed-other-type', f'{where}: cached_tasks({asked}) returned a {type(t).__module__}.{type(t).__qualname__}',
                              provider=provider))
        if sorted(got_nodes) != want_nodes and not vs:
            dup = len(got_nodes) != len(set(got_nodes))
            vs.append(O.V(self.id, 'cached_tasks-set', f'{where}: cached_tasks({asked}) lists nodes {sorted(got_nodes)}, the reference map holds {want_nodes}',
                          provider=provider, duplicate=dup, missing=bool(set(want_nodes) - set(got_nodes)),
                          extra=bool(set(got_nodes) - set(want_nodes))))
        probes['observations'] = probes.get('observations', 0) + 1
        if listed:
            probes['listed-tasks'] = probes.get('listed-tasks', 0) + len(listed)
        return vs

    def numeric_twins(self, lab, step, provider) -> list:
        """Tasks whose parameters are equal for Python (1 == True == 1.0) but are different values: cached
        one by one they are three entries, and cached_tasks lists three tasks."""
        from labtech.runners import SerialRunnerBackend
        TA = get_type('TA')
        twins = [TA(ident=9001, tag='twin', deps=(), opt=x) for x in (1, True, 1.0)]
        keys = {t.cache_key for t in twins}
        if len(keys) != 3:
            return [O.V(self.id, 'twin-keys-collide', f'step {step}: TA(opt=1), TA(opt=True), TA(opt=1.0) have cache keys {sorted(keys)}',
                        provider=provider)]
        old = probe_mod.ACTIVE
        probe_mod.set_active(probe_mod.NullProbe())
        try:
            lab.runner_backend = SerialRunnerBackend()
            try:
                for t in twins:
                    lab.run_task(t, disable_progress=True, disable_top=True)
                listed = [t for t in lab.cached_tasks([TA]) if t.ident == 9001]
                lab.uncache_tasks(twins)
                left = [t for t in lab.cached_tasks([TA]) if t.ident == 9001]
            except Exception as ex:
                return [O.V(self.id, 'twin-probe-failed', f'step {step}: {type(ex).__name__}: {str(ex)[:200]}', provider=provider)]
        finally:
            probe_mod.set_active(old)
        vs = []
        got = sorted(canon(t.opt) for t in listed)
        want = sorted(canon(t.opt) for t in twins)
        if got != want:
            vs.append(O.V(self.id, 'cached_tasks-set', f'step {step}: TA(opt=1), TA(opt=True) and TA(opt=1.0) were cached one by one; '
                          f'cached_tasks lists opt values {got}, expected {want}', provider=provider, twins=True,
                          missing=len(got) < 3, extra=len(got) > 3, duplicate=len(got) != len(set(got))))
        if left:
            vs.append(O.V(self.id, 'is_cached-differs', f'step {step}: after uncache_tasks of the three twins {len(left)} of them are still '
                          f'listed by cached_tasks', provider=provider, twins=True, got=True, cacheable=True))
        return vs

    def probe_run(self, ref, model, lab, step, provider) -> list:
        """Running the tasks returned by cached_tasks loads the stored results and executes nothing."""
        type_names = sorted({ref.tname(i) for i in ref.nodes})
        try:
            listed = list(lab.cached_tasks([get_type(t) for t in type_names]))
        except Exception as ex:
            return [O.V(self.id, 'cached_tasks-raises', f'step {step} probe: cached_tasks raised {type(ex).__name__}: {str(ex)[:160]}',
                        provider=provider, exc=type(ex).__name__)]
        if not listed:
            return []
        lp = _LoadProbe()
        old = probe_mod.ACTIVE
        probe_mod.set_active(lp)
        try:
            try:
                # (the Lab object may still carry the process backend of the last simulated run: outside
                # the simulation only the serial backend may be used)
                from labtech.runners import SerialRunnerBackend
                lab.runner_backend = SerialRunnerBackend()
                res = lab.run_tasks(listed, disable_progress=True, disable_top=True)
            except Exception as ex:
                return [O.V(self.id, 'probe-run-failed', f'step {step}: running the tasks returned by cached_tasks failed: '
                            f'{type(ex).__name__}: {str(ex)[:200]}', provider=provider)]
        finally:
            probe_mod.set_active(old)
        vs = []
        if lp.began:
            vs.append(O.V(self.id, 'probe-run-executed', f'step {step}: running the tasks returned by cached_tasks executed {lp.began}',
                          provider=provider))
        for t, v in res.items():
            want = model.get(t.ident)
            if want is not None and v != want[0]:
                vs.append(O.V(self.id, 'probe-run-value', f'step {step}: cached node {t.ident} loads {v!r}, the reference map holds {want[0]!r}',
                              provider=provider))
                break
        return vs

    def components(self):
        return {'history': {
            'real': ['labtech.lab (Lab.run_tasks / is_cached / cached_tasks / uncache_tasks)', 'labtech.cache', 'labtech.serialization',
                     'labtech.storage (LocalStorage, FsspecStorage over fsspec LocalFileSystem and MemoryFileSystem, NullStorage)',
                     'labtech.runners.serial'],
            'stub': ['for run operations on the coordinator-simulation substrate: the Runner (SimRunner)',
                     'Storage wrapper SimStorage (pass-through) around the provider under test']}}


class C08(HistoryCheck):
    id = 'C08'


class C09(HistoryCheck):
    id = 'C09'
    rich = True
    providers = ['local', 'fsspec-local', 'local', 'fsspec-mem']
    types = [('TA', 3), ('TD', 3), ('Node', 3), ('NodeX', 3), ('TA2', 3), ('TP', 2), ('TN', 1), ('TB', 1), ('TW', 2)]
    expected_probes = ('op-run', 'op-probe', 'listed-tasks', 'provider-local', 'provider-fsspec-local')
    rule = HistoryCheck.rule + '; universes draw parameter trees from the supported grammar (edge strings, big ints, inf floats, enums, nested tuples/dicts, nested tasks), a prefix-named pair of types (Node/NodeX), a same-named type in a second module and two cache formats'
