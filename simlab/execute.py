"""Run one scenario on one substrate and record what happened.

S0  real SerialRunner inline                      (backend 'serial')
S1  our own Runner through the RunnerBackend ABC  (backend 'sim')
S2  real Fork/Spawn process runners over SimOS    (backend 'fork' | 'spawn')
"""
from __future__ import annotations

import errno
import hashlib
import logging
import gc
import os
import shutil
from typing import Any, Optional

import labtech
from labtech.runners import ForkRunnerBackend, SerialRunnerBackend, SpawnRunnerBackend
from labtech.storage import LocalStorage
from labtech.types import ResultMeta
from labtech.utils import logger as lt_logger

from . import linemon, probe as probe_mod
from .choices import Choices
from .probe import PlannedFailure
from .sim import Sim, SimAbort
from .simrunner import DieSignal, S1Host, SimBackend
from .simstorage import SimStorage
from .spec import Built, Ref, base_context
from .spy import SpyBackend
from .tasklib import NONE, Value, ctx_view


_DEVNULL = []


def _devnull():
    """One sink per interpreter, never closed (tqdm objects keep writing to it)."""
    if not _DEVNULL:
        _DEVNULL.append(open(os.devnull, 'w'))
    return _DEVNULL[0]


def make_tick_datetime(coarse: bool = False):
    from datetime import datetime as _dt, timedelta as _td

    class TickDatetime(_dt):
        _ticks = [0]

        @classmethod
        def now(cls, tz=None):
            cls._ticks[0] += 1
            # a coarse clock (resolution above the running time of a short task): consecutive readings agree
            t = (cls._ticks[0] // 4) * 4 if coarse else cls._ticks[0]
            return _dt(2030, 1, 1) + _td(milliseconds=137 * t)

    return TickDatetime


class InjectedError(Exception):
    """Raised at an arbitrary executed line (C12)."""


class Rec:
    def __init__(self, events=None, fault_counts=None):
        self.events: list[tuple] = events if events is not None else []
        self.fault_counts: dict[str, int] = fault_counts if fault_counts is not None else {}
        self.main_lines = 0
        self.main_rpcs = 0
        self.logs: list[logging.LogRecord] = []
        self.in_run = False
        self.sim = None

    def ev(self, *e):
        if self.sim is not None and self.sim.dead:
            return      # threads unwinding after the run is over record nothing
        self.events.append(e)

    def fired(self, kind, n=1):
        if self.sim is not None and self.sim.dead:
            return
        self.fault_counts[kind] = self.fault_counts.get(kind, 0) + n


import re as _re
_VOLATILE = _re.compile(r"[0-9a-fA-F]{8}-[0-9a-fA-F]{4}-[0-9a-fA-F]{4}-[0-9a-fA-F]{4}-[0-9a-fA-F]{12}|0x[0-9a-fA-F]{6,}|/dev/shm/[\w./-]+|/tmp/[\w./-]+")


class Collector(logging.Handler):
    """The caller's handler(s) on labtech.logger.  `second` is a further handler of the caller (it records
    nothing itself).  Either of them being invoked inside a simulated task process means that a handler of
    the caller is still attached there (a FileHandler would write every record a second time)."""

    def __init__(self, rec: Rec, second: bool = False):
        super().__init__(level=0)
        self.rec = rec
        self.second = second

    def emit(self, record):
        sim = self.rec.sim
        e = sim.me() if sim is not None and not sim.dead else None
        if e is not None and e.kind == 'worker':
            self.rec.ev('log-in-worker', e.name, 'second' if self.second else 'first')
            self.rec.fired('caller-handler-invoked-in-worker')
            return
        if self.second:
            return
        self.rec.logs.append(record)
        try:
            msg = record.getMessage()
        except Exception:
            msg = str(record.msg)
        # uuid4 values, object addresses and temp-dir names never enter the event log
        msg = _VOLATILE.sub('<volatile>', msg)
        self.rec.ev('log', record.levelname, msg[:2000])


# ---------------------------------------------------------------- probe

class RunProbe:
    """What run() bodies report to (S0/S1/S2)."""

    def __init__(self, rec: Rec, sc: dict, sim: Optional[Sim] = None, s1: bool = False):
        self.rec = rec
        self.sc = sc
        self.sim = sim
        self.s1 = s1
        self.fail = sc.get('fail', {})
        self.shapes = sc.get('shapes', {})
        self.emit = sc.get('emit', {})
        self.chdir_to = None
        self.chdir_nodes: set = set()
        self.helper_nodes = {int(n) for n in (sc.get('helpers') or [])}
        self.mp_child_nodes = {int(n) for n in (sc.get('mp_children') or [])}
        self.save_armed: Optional[int] = None     # node whose save window is open (S0/S1)
        self.embed_ctx = sc.get('embed_ctx', True)
        self.on_end = None
        self.on_begin = None

    def _who(self):
        if self.sim is not None:
            e = self.sim.me()
            return e, (e.name if e is not None else 'ext')
        return None, 'main'

    def begin(self, task):
        n = task.ident
        if self.on_begin is not None:
            self.on_begin(task)
        e, who = self._who()
        if e is not None and e.kind == 'worker':
            e.node = n
            e.set_phase('run')
        self.rec.ev('begin', n, who, ctx_view(task.context))
        if self.sim is not None:
            self.sim.gate()
        f = self.fail.get(str(n))
        if f == 'raise':
            self.rec.fired('task-raise')
            self.rec.ev('fault', 'raise', n)
            raise PlannedFailure(n)
        if f == 'raise-chained':
            # the task's own exception has a cause of its own (raise X from Y)
            self.rec.fired('task-raise')
            self.rec.fired('task-raise-chained')
            self.rec.ev('fault', 'raise', n)
            raise PlannedFailure(n) from KeyError('inner cause of the planned failure')
        if f == 'sysexit':
            # a task that calls sys.exit(): fails with a BaseException that is not an Exception
            self.rec.fired('task-sysexit')
            self.rec.ev('fault', 'raise', n)
            raise SystemExit(3)
        if f == 'die' and self.s1:
            self.rec.fired('task-die')
            self.rec.ev('fault', 'die', n)
            raise DieSignal()

    def read(self, task, dep, value):
        _e, who = self._who()
        dg = value.digest if isinstance(value, Value) else (NONE.digest if value is None else f'<{type(value).__name__}>')
        self.rec.ev('read', task.ident, dep.ident, dg, who)
        if self.sim is not None:
            self.sim.yp('read')

    def read_fail(self, task, dep, exc):
        _e, who = self._who()
        self.rec.ev('readfail', task.ident, dep.ident, type(exc).__name__, who)

    def work(self, task):
        if task.ident in self.mp_child_nodes:
            # the task starts a child of its own through multiprocessing (a Pool, a ProcessPoolExecutor):
            # multiprocessing refuses that in a daemonic process
            e, _w = self._who()
            self.rec.fired('task-starts-multiprocessing-child')
            if e is not None and e.kind == 'worker' and getattr(e.proc, 'daemon', None):
                raise AssertionError('daemonic processes are not allowed to have children')
        if task.ident in self.helper_nodes:
            # the task forks a helper process that outlives it (it inherits every descriptor of the task process)
            e, _w = self._who()
            if e is not None and e.kind == 'worker':
                e.tags['descendants'] = True
                self.rec.fired('task-forks-helper')
        if self.chdir_to is not None and task.ident in self.chdir_nodes:
            self.rec.fired('task-changes-cwd')
            os.chdir(self.chdir_to)
        pat = self.emit.get(str(task.ident))
        if pat:
            import sys
            for op in pat:
                k = op[0]
                if k == 'log':
                    getattr(lt_logger, op[1])(op[2])
                elif k == 'out':
                    sys.stdout.write(op[1])
                elif k == 'err':
                    sys.stderr.write(op[1])
                elif k == 'print':
                    print(op[1])
                elif k == 'burst':
                    for j in range(op[1]):
                        lt_logger.info(f'bst{task.ident}x{j}x')
                elif k == 'flush_out':
                    sys.stdout.flush()
                elif k == 'flush_err':
                    sys.stderr.flush()
                elif k == 'raise':
                    self.rec.ev('emit', task.ident, 'raise', None)
                    self.rec.fired('emitter-raises')
                    self.rec.ev('fault', 'raise', task.ident)
                    raise PlannedFailure(task.ident)
                elif k == 'die':
                    self.rec.ev('emit', task.ident, 'die', None)
                    e, _who = self._who()
                    if e is not None and e.kind == 'worker':
                        self.rec.fired('emitter-dies')
                        self.sim.kill(e, 'kill' if task.ident % 2 else 'exit1')
                        self.sim.yp('dying')
                    continue
                self.rec.ev('emit', task.ident, k, op[-1] if k not in ('flush_out', 'flush_err') else None)
                if self.sim is not None:
                    self.sim.yp('work')
        elif self.sim is not None:
            self.sim.yp('work')

    def end(self, task, value):
        e, who = self._who()
        self.rec.ev('end', task.ident, value.digest, who)
        if e is not None and e.kind == 'worker':
            e.set_phase('save')
        self.save_armed = task.ident
        if self.on_end is not None:
            self.on_end(task.ident)
        if self.sim is not None:
            self.sim.yp('end')

    def shape(self, task):
        return self.shapes.get(str(task.ident))


# ---------------------------------------------------------------- storage controller

class StorageCtl:
    """Receives every storage / file operation before it executes."""

    def __init__(self, rec: Rec, sim: Optional[Sim], sc: dict, probe: RunProbe):
        self.rec = rec
        self.sim = sim
        self.probe = probe
        self.io_fault = sc.get('io_fault')      # {'index': k, 'errno': 'EIO', 'torn': bool}
        self.window_ops = 0                      # ops seen inside save windows
        self.window_log: list[tuple] = []
        self.count_only = sc.get('io_count_only', False)
        self.load_fault_keys: set = set()          # cache keys whose load gets a read error (set by execute)
        self.submitted_keys: set = set()           # cache keys of tasks already handed to the runner

    def _who(self):
        if self.sim is not None:
            e = self.sim.me()
            return e, (e.name if e is not None else 'ext')
        return None, 'main'

    def _in_window(self, e) -> bool:
        if e is not None and e.kind == 'worker':
            return e.phase == 'save'
        return self.probe.save_armed is not None

    def _fault(self, label: str, e, is_write=False):
        if self.io_fault is None and not self.count_only:
            return None
        if not self._in_window(e):
            return None
        idx = self.window_ops
        self.window_ops += 1
        self.window_log.append((idx, label))
        f = self.io_fault
        if f is not None and f.get('node') is not None and self.probe.save_armed != f['node'] and not (e is not None and e.kind == 'worker' and e.node == f['node']):
            self.window_ops -= 1
            self.window_log.pop()
            return None
        if f is not None and f['index'] == idx and not f.get('done'):
            f['done'] = True
            code = getattr(errno, f.get('errno', 'EIO'))
            exc = OSError(code, f'simlab injected {f.get("errno", "EIO")} at {label}')
            self.rec.fired('io-error')
            self.rec.fired('io-error@' + label.split(':')[0])
            self.rec.ev('fault', 'io', idx, label, f.get('errno', 'EIO'), bool(f.get('torn')))
            if is_write and f.get('torn'):
                self.rec.fired('torn-write')
                return ('torn', exc)
            raise exc
        return None

    def storage_op(self, st, kind, key, filename=None, mode=None):
        e, who = self._who()
        self.rec.ev('st', kind, key, filename, mode, who)
        if self.sim is not None:
            self.sim.yp('st.' + kind)
        if kind == 'open' and mode and 'r' in mode and key in self.load_fault_keys and key in self.submitted_keys:
            # a storage read error while a cached result is being loaded: the first read-open of the entry
            # after its task was handed to the runner (is_cached probes happen before that)
            self.load_fault_keys.discard(key)
            self.rec.fired('load-read-error')
            self.rec.ev('fault', 'load-io', key, filename)
            raise OSError(errno.EIO, f'simlab injected EIO reading {filename}')
        self._fault(f'st.{kind}:{filename}:{mode}', e)

    def file_op(self, f, kind, n=0):
        e, who = self._who()
        self.rec.ev('f', kind, f.key, f.filename, n, who)
        if self.sim is not None:
            self.sim.yp('f.' + kind)
        if 'r' in f.mode and '+' not in f.mode:
            return None
        return self._fault(f'f.{kind}:{f.filename}', e, is_write=(kind == 'write'))

    def file_opened(self, f):
        e, _ = self._who()
        f.owner = e
        if e is not None:
            e.files.append(f)

    def file_closed(self, f):
        e = f.owner
        if e is not None and f in e.files:
            e.files.remove(f)


# ---------------------------------------------------------------- S2 fault hooks

class KillPlan:
    def __init__(self, rec: Rec, kills: list[dict], rate: int = 0, max_random: int = 0):
        self.rec = rec
        self.kills = [dict(k) for k in kills]
        self.rate = rate
        self.left = max_random

    def on_yield(self, sim: Sim, ent, kind, info):
        if ent.kind != 'worker' or ent.state == 'killed':
            return
        for k in self.kills:
            if k.get('done'):
                continue
            if k.get('node') is not None and ent.node != k['node']:
                continue
            if k.get('worker') is not None and ent.proc.ordinal != k['worker']:
                continue
            if ent.phase != k['phase'] or ent.phase_steps - 1 != k['k']:
                continue
            k['done'] = True
            self.rec.ev('fault', 'kill', ent.name, ent.node, k['phase'], k['k'], kind)
            sim.kill(ent, k.get('how', 'kill'), flush_first=bool(k.get('flush')))
            return
        if self.rate and self.left > 0 and sim.faults.chance(1, self.rate):
            self.left -= 1
            self.rec.ev('fault', 'kill-random', ent.name, ent.node, ent.phase, ent.phase_steps - 1, kind)
            sim.kill(ent, 'kill', flush_first=sim.faults.chance(1, 2))


class InterruptPlan:
    """Simulated Ctrl-C: delivered to the whole foreground group."""

    def __init__(self, rec: Rec, sim: Optional[Sim], specs: list[dict], starve_after: int = 0):
        self.rec = rec
        self.sim = sim
        self.specs = [dict(s) for s in specs]
        self.i = 0
        self.lines = 0
        self.blocks = 0
        self.rpcs = 0
        self._seen_after = False
        self.wait_steps = 0
        self.starve_after = starve_after
        self.simos = None
        self.raised = 0
        self.first_raise_event = 0

    def cur(self):
        return self.specs[self.i] if self.i < len(self.specs) else None

    def _raised_in_main(self):
        """A KeyboardInterrupt is about to be raised in the calling thread."""
        self.raised += 1
        if self.raised == 1:
            self.first_raise_event = len(self.rec.events)
        if self.starve_after and self.raised >= self.starve_after and self.sim is not None:
            # "does not need a single further worker step" only applies once the coordinator's handler of
            # the first interrupt is active (it has reached runner.cancel()); a second interrupt that
            # arrives while the first is still unwinding is seen by the coordinator as a single one
            armed = any(e[0] == 'cancel' for e in self.rec.events[self.first_raise_event:])
            if armed:
                self.sim.starve_workers = True

    def on_main_line(self):
        s = self.cur()
        if s is not None and s['mode'] == 'line':
            if s.get('after') and not self._seen_after:
                # instants are only counted once the named event (e.g. the first 'submit') has been recorded
                if not any(e[0] == s['after'] for e in self.rec.events):
                    return
                self._seen_after = True
            self.lines += 1
            if self.lines > s['k']:
                self._deliver(True)

    def on_main_rpc(self, queue, method):
        """The calling thread has sent a request to a manager and is about to read the reply."""
        if not self.rec.in_run:
            return
        self.rpcs += 1
        s = self.cur()
        if s is not None and s['mode'] == 'rpc' and self.rpcs > s['k']:
            self.rec.fired('sigint-inside-proxy-call')
            self._deliver(True)

    def on_yield(self, sim, ent, kind, info):
        if ent is sim.main and kind.startswith('block:'):
            self.blocks += 1
            self.wait_steps = 0

    def on_schedule(self, sim):
        s = self.cur()
        if s is None or s['mode'] != 'blocked' or sim.finished:
            return
        m = sim.main
        if m.state == 'blocked' and self.blocks > s['j'] and m.pending_exc is None:
            self.wait_steps += 1
            if self.wait_steps > s['d']:
                self._deliver(False)

    def _deliver(self, raise_now: bool):
        self.i += 1
        self.lines = 0
        self.blocks = 0
        self.rpcs = 0
        self.wait_steps = 0
        n = self.i
        sim = self.sim
        self.rec.fired('sigint')
        self.rec.fired(f'sigint#{n}')
        if sim is None:
            self.rec.ev('sigint', n, 'running', self.rec.main_lines)
            raise KeyboardInterrupt()
        m = sim.main
        ignored = self.simos is not None and self.simos.main_sigint == 'ignore'
        masked = self.simos is not None and self.simos.main_blocked and not ignored
        self.rec.ev('sigint', n, m.blocked_in or 'running', self.rec.main_lines,
                    'ignored-by-caller' if ignored else ('pending-in-caller' if masked else 'delivered'))
        sim.trace.append(('sigint', n, m.blocked_in or 'running'))
        self.rec.fired('sigint-while-' + (m.blocked_in or 'running'))
        for w in sim.entities:
            if w.kind == 'worker' and w.alive and w.tags.get('sigint_blocked'):
                w.tags['sigint_pending'] = True          # stays pending until the child unblocks it
                self.rec.fired('sigint-child-blocked')
                continue
            if w.kind == 'worker' and w.alive and w.sigint == 'default':
                w.pending_exc = KeyboardInterrupt()
                self.rec.ev('sigint-child', w.name, w.phase, w.node)
                self.rec.fired('sigint-child-default-disposition')
        if ignored:
            # the calling process has set SIGINT to SIG_IGN at this instant: the signal is discarded
            self.rec.fired('sigint-discarded-by-caller')
            return
        if masked:
            # blocked in the calling thread: pending (standard signals do not queue: several arrivals
            # collapse into one), raised when the mask is restored
            self.simos.main_pending_sigint = True
            self.rec.fired('sigint-pending-in-caller')
            self.simos.on_main_unblocked = self._raised_in_main
            return
        self._raised_in_main()
        if raise_now:
            raise KeyboardInterrupt()
        m.pending_exc = KeyboardInterrupt()


# ---------------------------------------------------------------- helpers

def key_dir(storage_dir: str, task) -> str:
    return os.path.join(storage_dir, task.cache_key)


def quiet_logger(rec: Rec):
    """labtech.logger delivers to our collector only, for the duration of a run."""
    saved = (list(lt_logger.__dict__['handlers']), lt_logger.level, lt_logger.propagate)
    lt_logger.__dict__['handlers'] = [Collector(rec), Collector(rec, second=True)]
    lt_logger.propagate = False
    return saved


def restore_logger(saved):
    lt_logger.__dict__['handlers'], lt_logger.level, lt_logger.propagate = saved


def warm_cache(sc: dict, storage_dir: str) -> dict[int, Value]:
    """Pre-state: the entries of sc['cached'] exist, created by a real earlier
    run (serial backend, context generation gen_pre); nothing else is cached."""
    cached = list(sc.get('cached', []))
    if not cached:
        return {}
    ref = Ref(sc)
    pre_sc = dict(sc)
    pre_sc['requested'] = [[i, 0] for i in cached]
    built = Built(pre_sc, force_shared=True)
    rec = Rec()
    saved = quiet_logger(rec)
    probe_mod.set_active(None)
    try:
        # (the spy bounds a spinning coordinator, so that a hang is a verdict and not a wall-clock kill)
        lab = labtech.Lab(storage=storage_dir, continue_on_failure=False, notebook=False,
                          context=base_context(sc.get('gen_pre', 0)),
                          runner_backend=SpyBackend(SerialRunnerBackend(), Rec()))
        res = lab.run_tasks(built.requested, disable_progress=True, disable_top=True)
    finally:
        restore_logger(saved)
    values = {t.ident: v for t, v in res.items()}
    keep = set(cached)
    for i in ref.closure(cached):
        if i not in keep and ref.cacheable(i):
            t = built.get(i, 0)
            d = key_dir(storage_dir, t)
            if os.path.isdir(d):
                shutil.rmtree(d)
    return values


def make_debris(sc: dict, ch: Choices, storage_dir: str) -> list:
    """Pre-state: for each node of sc['debris'] the storage holds what a save that failed part-way
    leaves behind (created by a real earlier serial run whose save of that node gets an injected
    storage error).  Such a node is not cached.  Returns the nodes for which debris really exists."""
    ref = Ref(sc)
    keep = set(sc.get('cached', []))
    made = []
    for n in sc['debris']:
        if n in keep or not ref.cacheable(n):
            continue
        pre = {k: v for k, v in sc.items() if k in ('nodes', 'cpu_count')}
        pre.update({'requested': [[n, 0]], 'backend': 'serial', 'max_workers': 1, 'cof': True, 'skip_warm': True,
                    'gen_main': sc.get('gen_pre', 0), 'observe_after': False, 'observe_before': False,
                    'cached': sorted(keep), 'io_fault': {'index': 2 + (n % 3), 'errno': 'EIO', 'node': n}})
        execute(pre, Choices(seed=f'debris:{n}'), storage_dir)
        made.append(n)
    # dependencies executed (and cached) on the way are not part of the pre-state
    kb = Built({**sc, 'requested': []})
    for i in ref.closure(made):
        if i not in keep and i not in made and ref.cacheable(i):
            d = key_dir(storage_dir, kb.get(i, 1))
            if os.path.isdir(d):
                shutil.rmtree(d)
    # a fault index beyond the end of a save leaves a complete entry: that is not debris
    state = observe_cache(sc, storage_dir, made) if made else {}
    real = []
    for n in made:
        if state.get(n) is True:
            shutil.rmtree(key_dir(storage_dir, kb.get(n, 1)), ignore_errors=True)
        else:
            real.append(n)
    return real


def meta_tuple(m: Optional[ResultMeta]):
    if m is None:
        return None
    return (m.start.isoformat() if m.start is not None else None,
            m.duration.total_seconds() if m.duration is not None else None)


def describe_exc(ex: BaseException) -> dict:
    cause = ex.__cause__
    return {
        'type': type(ex).__name__,
        'msg': str(ex)[:300],
        'cause': type(cause).__name__ if cause is not None else None,
        'cause_ident': getattr(cause, 'ident', None),
        'context': type(ex.__context__).__name__ if ex.__context__ is not None else None,
    }


def observe_cache(sc: dict, storage_dir: str, nodes=None) -> dict:
    """Public observations of the storage by a new Lab."""
    ref = Ref(sc)
    built = Built({**sc, 'requested': []})
    lab = labtech.Lab(storage=storage_dir, notebook=False, runner_backend='serial')
    out = {}
    for i in (nodes if nodes is not None else sorted(ref.nodes)):
        t = built.get(i, 1)
        try:
            out[i] = bool(lab.is_cached(t))
        except Exception as ex:   # noqa
            out[i] = f'error:{type(ex).__name__}'
    return out


class _LoadProbe(probe_mod.NullProbe):
    def __init__(self):
        self.began = []

    def begin(self, task):
        self.began.append(task.ident)


def probe_load(sc: dict, storage_dir: str, node: int, context: dict):
    """What a later run sees for one node: ('loaded'|'executed', value) or
    ('error', description).  The later run uses a new Lab and the serial
    backend; if it executes, it re-caches (as any later run would)."""
    built = Built({**sc, 'requested': []})
    t = built.get(node, 1)
    lp = _LoadProbe()
    rec = Rec()
    saved = quiet_logger(rec)
    old = probe_mod.ACTIVE
    probe_mod.set_active(lp)
    try:
        lab = labtech.Lab(storage=storage_dir, continue_on_failure=False, notebook=False,
                          context=context, runner_backend=SpyBackend(SerialRunnerBackend(), Rec()))
        try:
            v = lab.run_task(t, disable_progress=True, disable_top=True)
        except BaseException as ex:
            return ('error', describe_exc(ex), lp.began)
        return ('executed' if node in lp.began else 'loaded', v, lp.began)
    finally:
        probe_mod.set_active(old)
        restore_logger(saved)


# ---------------------------------------------------------------- execute

class Outcome:
    """Everything observable about one run_tasks call."""

    def __init__(self):
        self.kind = None               # return | raise | abort
        self.exc: Optional[dict] = None
        self.exc_obj = None
        self.returned: list[tuple[int, Any]] = []   # (node, value) in dict order
        self.returned_key_instances: list[int] = []  # instance serial of each key object
        self.events: list[tuple] = []
        self.fault_counts: dict[str, int] = {}
        self.metas: dict[int, list] = {}            # node -> [meta tuple per instance]
        self.pre_values: dict[int, Value] = {}
        self.cached_before: dict[int, bool] = {}
        self.cached_after: dict[int, Any] = {}
        self.keys: dict[int, str] = {}              # node -> cache_key
        self.vtime = 0.0
        self.steps = 0
        self.timeouts = 0
        self.main_lines = 0
        self.main_rpcs = 0
        self.abort: Optional[str] = None
        self.abort_detail = ''
        self.logs: list = []
        self.trace: list = []
        self.main_proc_name_after = None
        self.leaked_threads = 0
        self.window_ops: list = []
        self.window_lines: list = []
        self.instance_children: dict = {}
        self.instance_node: dict = {}
        self.requested_serials: list[int] = []
        self.retention_violations: list = []
        self.retention_stats: dict = {}
        self.rest_points = 0
        self.real_clock = False
        self.built = None

    def digest(self) -> str:
        ev = self.events
        if self.real_clock:
            # real timestamps change the length of the metadata text: sizes are not part of the identity of such a run
            ev = [(e[:4] + (0,) + e[5:]) if e[0] == 'f' else e for e in ev]
        return hashlib.sha1(repr(ev).encode()).hexdigest()[:16]

    def schedule_digest(self) -> str:
        keep = [e for e in self.events if e[0] in ('begin', 'end', 'complete', 'pstart', 'kill', 'timeout',
                                                  'batch', 'sigint', 'fault', 'qput', 'start')]
        return hashlib.sha1(repr(keep).encode()).hexdigest()[:16]

    def completion_order(self) -> tuple:
        return tuple(e[1] for e in self.events if e[0] == 'complete')


def execute(sc: dict, ch: Choices, storage_dir: Optional[str], storage_obj=None, built: Optional[Built] = None,
            session: Optional[dict] = None) -> Outcome:
    """Runs warm-up (if the spec asks for a cache pre-state) and then the main
    run_tasks call on the substrate named by sc['backend']."""
    from . import sim as _sim_mod
    del _sim_mod.RAISED_HARNESS_ERRORS[:]
    out = _execute(sc, ch, storage_dir, storage_obj, built, session)
    if _sim_mod.RAISED_HARNESS_ERRORS:
        # the simulator met something it does not model: no verdict, whatever labtech did with the exception
        raise _sim_mod.HarnessError('unmodelled seam: ' + _sim_mod.RAISED_HARNESS_ERRORS[0])
    return out


def _execute(sc: dict, ch: Choices, storage_dir: Optional[str], storage_obj=None, built: Optional[Built] = None,
             session: Optional[dict] = None) -> Outcome:
    out = Outcome()
    out.real_clock = bool(sc.get('real_clock'))
    backend = sc['backend']
    ref = Ref(sc)
    if storage_dir is not None and sc.get('cached') and not sc.get('skip_warm'):
        try:
            out.pre_values = warm_cache(sc, storage_dir)
        except (Exception, SimAbort) as ex:
            # the earlier run that should create the cache pre-state is itself a labtech run in which every task succeeds
            out.kind = 'warmup-failed'
            out.exc = describe_exc(ex)
            out.events = [('warmup-failed', out.exc['type'])]
            return out
    if storage_dir is not None and sc.get('debris') and not sc.get('skip_warm'):
        sc['debris'] = make_debris(sc, ch, storage_dir)
    if built is None:
        built = Built(sc)
    else:
        # a persistent universe of task objects (the same instances are passed to several run_tasks calls)
        built.requested = [built.get(nid, fresh) for nid, fresh in sc['requested']]
    out.built = built
    out.instance_children = built.children
    out.instance_node = built.serial_node
    out.requested_serials = [built.serial_of[id(t)] for t in built.requested]
    keys_built = Built({**sc, 'requested': []})
    for i in ref.nodes:
        out.keys[i] = keys_built.get(i, 0).cache_key
    if storage_dir is not None and sc.get('observe_before', True):
        out.cached_before = {i: os.path.isdir(os.path.join(storage_dir, k)) for i, k in out.keys.items()}

    context = dict(sc.get('context') or base_context(sc.get('gen_main', 1)))
    sim: Optional[Sim] = None
    simos = None
    if backend in ('fork', 'spawn'):
        from .simos import SimOS
        sim = Sim(ch, params=sc.get('swarm') or {})
        simos = SimOS(sim, cpu_count=sc.get('cpu_count', 2), spawn_boot_steps=sc.get('boot_steps', 2),
                      kill_flush=bool(sc.get('terminate_flush', False)))
        simos.coarse_clock = bool(sc.get('coarse_clock'))
        simos.linger = {int(k): v for k, v in (sc.get('linger') or {}).items()}
        rec = Rec(sim.events, sim.fault_counts)
        rec.sim = sim
    else:
        rec = Rec()
    probe = RunProbe(rec, sc, sim, s1=(backend == 'sim'))
    ctl = StorageCtl(rec, sim, sc, probe)

    storage_kind = sc.get('storage', 'simlocal')
    sim_storage = None
    # a storage directory given as a relative path, and tasks that change the working directory while they
    # run (in-process substrates only: a simulated worker has no working directory of its own)
    old_cwd = None
    local_arg = storage_dir
    if sc.get('rel_storage') and sim is None and storage_dir is not None and storage_obj is None and storage_kind != 'none':
        old_cwd = os.getcwd()
        os.chdir(os.path.dirname(os.path.abspath(storage_dir)))
        local_arg = os.path.basename(os.path.abspath(storage_dir))
        probe.chdir_to = os.path.abspath(storage_dir) + '.cwd'
        os.makedirs(probe.chdir_to, exist_ok=True)
        probe.chdir_nodes = set(sc.get('chdir_nodes') or [])
        rec.fired('relative-storage-path')
    if storage_obj is not None:
        sim_storage = SimStorage(storage_obj, ctl, split_threshold=sc.get('split_threshold', 0))
        storage_arg: Any = sim_storage
    elif storage_dir is None or storage_kind == 'none':
        storage_arg = None
    elif storage_kind == 'local':
        storage_arg = local_arg
    else:
        sim_storage = SimStorage(LocalStorage(local_arg), ctl, split_threshold=sc.get('split_threshold', 0))
        sim_storage.local_dir = storage_dir
        sim_storage.delete_order = sc.get('delete_order')
        storage_arg = sim_storage

    retention = None
    if sc.get('retention'):
        from .oracles import RetentionObserver
        retention = RetentionObserver(ref, rec, sc, local_values=(sim is None))
    if backend == 'serial':
        inner = SerialRunnerBackend()
        rb = SpyBackend(inner, rec, retention)
        if retention is not None:
            probe.on_begin = retention.at_begin
    elif backend == 'sim':
        host = S1Host(rec, ch.stream('sched'), cpu_count=sc.get('cpu_count', 2),
                      **(sc.get('s1') or {}))
        rb = SimBackend(host)
        if retention is not None:
            rb = SpyBackend(rb, Rec(), retention)   # second log discarded; retention events go to rec
            retention.rec = rec
    elif backend == 'fork':
        rb = SpyBackend(ForkRunnerBackend(), rec, retention)
    elif backend == 'spawn':
        rb = SpyBackend(SpawnRunnerBackend(), rec, retention)
    else:
        raise ValueError(backend)

    saved_logger = quiet_logger(rec)
    import multiprocessing as _mp
    _mp.current_process().name = 'MainProcess'    # a name leaked by an earlier run must not carry over
    tick_patch = None
    if sim is None and not sc.get('real_clock'):
        # S0/S1: result_meta timestamps come from a deterministic ticking clock
        import labtech.runners.base as base_mod
        if not hasattr(base_mod, 'datetime'):
            from .sim import HarnessError
            raise HarnessError('seam missing: labtech.runners.base.datetime')
        tick_patch = (base_mod, base_mod.datetime)
        base_mod.datetime = make_tick_datetime(bool(sc.get('coarse_clock')))
    old_probe = probe_mod.ACTIVE
    probe_mod.set_active(probe)
    ip = None
    specs = sc.get('interrupts') or []
    if specs:
        ip = InterruptPlan(rec, sim, specs, starve_after=sc.get('starve_after', 0))
    inject_line = sc.get('inject_line')       # {'index': k} within save windows (S0/S1)
    line_mode = sc.get('line_yield', 'none')
    line_coord = bool(sc.get('line_coord'))
    count_lines = bool(sc.get('count_lines'))
    need_lines = bool(specs and any(s['mode'] == 'line' for s in specs)) or inject_line is not None \
        or line_mode != 'none' or line_coord or count_lines
    window_lines = [0]

    if sim is not None:
        simos.install()
        sim.attach_main()
        kp = KillPlan(rec, sc.get('kills') or [], rate=sc.get('kill_rate', 0), max_random=sc.get('max_random_kills', 0))
        sim.hooks.append(kp)
        if ip is not None:
            ip.simos = simos
            sim.hooks.append(ip)
            sim.sched_hooks.append(ip)

        def _on_main_rpc(queue, method):
            if rec.in_run:
                rec.main_rpcs += 1
                if ip is not None:
                    ip.on_main_rpc(queue, method)
        simos.on_main_rpc = _on_main_rpc

        def handler(code, line):
            if sim.dead:
                return None
            e = sim.me()
            if e is None:
                return None
            if e.kind == 'main':
                if not rec.in_run:
                    return None
                if line_coord:
                    sim.yp('line')
            elif e.kind == 'worker':
                if e.phase == 'save' and (inject_line is not None or count_lines) and not linemon.starts_with_nop(code, line):
                    idx = window_lines[0]
                    window_lines[0] += 1
                    if count_lines:
                        out.window_lines.append((idx, linemon.short(code.co_filename), line))
                    if inject_line is not None and idx == inject_line['index'] and not inject_line.get('done'):
                        inject_line['done'] = True
                        rec.fired('line-exception')
                        rec.ev('fault', 'line', idx, linemon.short(code.co_filename), line)
                        raise InjectedError(f'simlab injected exception at {linemon.short(code.co_filename)}:{line}')
                if line_mode == 'all' or (line_mode == 'save' and e.phase == 'save'):
                    sim.yp('line', (linemon.short(code.co_filename), line))
            elif line_coord:
                sim.yp('line')
            return None

        def cp_handler(code, kind):
            # an instant at which a pending signal can surface in Python code of the calling thread
            if sim.dead or not rec.in_run:
                return None
            e = sim.me()
            if e is None or e.kind != 'main':
                return None
            rec.main_lines += 1
            if ip is not None:
                ip.on_main_line()
            return None
    else:
        def cp_handler(code, kind):
            if not rec.in_run:
                return None
            rec.main_lines += 1
            if ip is not None:
                ip.on_main_line()
            return None

        def handler(code, line):
            if not rec.in_run:
                return None
            if probe.save_armed is not None and (inject_line is not None or count_lines) and not linemon.starts_with_nop(code, line):
                idx = window_lines[0]
                window_lines[0] += 1
                if count_lines:
                    out.window_lines.append((idx, linemon.short(code.co_filename), line))
                if inject_line is not None and idx == inject_line['index'] and not inject_line.get('done'):
                    inject_line['done'] = True
                    rec.fired('line-exception')
                    rec.ev('fault', 'line', idx, linemon.short(code.co_filename), line)
                    raise InjectedError(f'simlab injected exception at {linemon.short(code.co_filename)}:{line}')
            return None

    # the save window of a node closes when its completion is reported (S0/S1)
    def _close_window(*e):
        pass

    if session is not None and session.get('lab') is not None:
        # the same Lab object serves several run_tasks calls; only what this run draws per call is set
        lab = session['lab']
        lab.runner_backend = rb
        if session.get('sim_storage') is not None:
            session['sim_storage'].ctl = ctl
    else:
        lab = labtech.Lab(storage=storage_arg, continue_on_failure=sc.get('cof', True),
                          max_workers=sc.get('max_workers'), notebook=False, context=context,
                          runner_backend=rb)
        if session is not None:
            session['lab'] = lab
            session['sim_storage'] = sim_storage
            sim_storage = None      # released by the owner of the session
    show = bool(sc.get('progress'))
    devnull = None
    import sys as _sys
    real_stderr = _sys.stderr
    if show and sim is None:
        devnull = _devnull()
        _sys.stderr = devnull
    elif show and sim is not None:
        devnull = _devnull()
        simos._real_streams['stderr'] = devnull
        _sys.stderr._fallback = devnull

    ctl.load_fault_keys = {out.keys[int(n)] for n in (sc.get('load_faults') or []) if int(n) in out.keys}
    orig_ev = rec.ev
    serial_like = sim is None

    def ev2(*e):
        if e[0] == 'complete':
            # cyclic garbage (a handle abandoned by an exception, kept alive by its traceback) is collected at
            # fixed points of the run, not whenever the collector happens to start: a finaliser that closes a
            # file is a recorded, fault-injectable event (the young generations are enough: such garbage is recent)
            gc.collect(1)
        if e[0] == 'submit' and e[1] in out.keys:
            ctl.submitted_keys.add(out.keys[e[1]])
        # S0/S1: close the save window when the coordinator sees the completion
        if serial_like and e[0] == 'complete' and probe.save_armed == e[1]:
            probe.save_armed = None
        orig_ev(*e)
    rec.ev = ev2   # type: ignore

    try:
        prelude = sc.get('prelude')
        if prelude:
            # an earlier run_tasks call of the same interpreter (same simulated OS) with another configuration
            from .tasklib import TN
            p_backend = prelude.get('backend') or backend
            if sim is None and p_backend in ('fork', 'spawn'):
                p_backend = backend
            p_inner = {'serial': SerialRunnerBackend, 'fork': ForkRunnerBackend, 'spawn': SpawnRunnerBackend}.get(p_backend)
            if p_inner is not None:
                old_fail, probe.fail = probe.fail, {}
                keep_mode = None
                if sim is not None:
                    keep_mode, sim.gate_mode = sim.gate_mode, 'free'
                plab = labtech.Lab(storage=None, continue_on_failure=True, max_workers=prelude.get('max_workers'),
                                   notebook=False, context={}, runner_backend=p_inner())
                try:
                    plab.run_tasks([TN(ident=900 + i, tag='prelude') for i in range(prelude.get('n', 3))],
                                   disable_progress=True, disable_top=True)
                except SimAbort as ab:
                    out.kind = 'abort'
                    out.abort = ab.reason
                    out.abort_detail = 'during the prelude run: ' + ab.detail
                probe.fail = old_fail
                if sim is not None:
                    sim.block('prelude-drain', lambda: not any(x.kind == 'worker' and x.alive for x in sim.entities))
                    sim.gate_mode = keep_mode
                    sim.quiet_polls = 0
                del rec.events[:]
                rec.ev('prelude-done', prelude.get('max_workers'))
                rec.fired('prelude-run')
        helper_stop = None
        if sc.get('caller_thread'):
            # the caller is not single-threaded: an idle helper thread lives while run_tasks is called
            import threading as _th
            helper_stop = _th.Event()
            _th.Thread(target=helper_stop.wait, name='simlab-caller-helper', daemon=True).start()
            rec.fired('caller-has-helper-thread')
        if sim is not None:
            rec.ev('clock', round(sim.clock, 3))      # virtual time at which the observed run_tasks call begins
        if need_lines:
            linemon.start(handler, cp_handler if (ip is not None or count_lines) else None)
        gc_was_enabled = gc.isenabled()
        gc.disable()
        rec.in_run = True
        try:
            if out.kind == 'abort':
                raise SimAbort(out.abort, out.abort_detail)
            if sc.get('run_task') and len(built.requested) == 1:
                single = lab.run_task(built.requested[0], bust_cache=bool(sc.get('bust_cache')),
                                      disable_progress=not show, disable_top=not show)
                result = {built.requested[0]: single}
            else:
                result = lab.run_tasks(built.requested, bust_cache=bool(sc.get('bust_cache')),
                                       disable_progress=not show, disable_top=not show)
            out.kind = 'return'
            if retention is not None:
                retention.at_return(getattr(rb, 'runner', None))
            try:
                for t, v in result.items():
                    out.returned.append((t.ident, v))
                    out.returned_key_instances.append(built.serial_of.get(id(t), -1))
            except Exception as ex:   # a malformed return value is itself an observation
                out.kind = 'raise'
                out.exc = describe_exc(ex)
        except SimAbort as ab:
            out.kind = 'abort'
            out.abort = ab.reason
            out.abort_detail = ab.detail
        except BaseException as ex:
            out.kind = 'raise'
            out.exc = describe_exc(ex)
            out.exc_obj = ex
        finally:
            rec.in_run = False
            if gc_was_enabled:
                gc.enable()
            if helper_stop is not None:
                helper_stop.set()
            if need_lines:
                linemon.stop()
        rec.ev('run_tasks-left', out.kind, out.exc['type'] if out.exc else None)
        if sim is not None:
            sim.drain()
            rec.ev('drained')
        import multiprocessing
        out.main_proc_name_after = multiprocessing.current_process().name
    finally:
        probe_mod.set_active(old_probe)
        if sim is not None:
            sim.shutdown()
            simos.uninstall()
            out.leaked_threads = getattr(sim, 'leaked', 0)
        restore_logger(saved_logger)
        if tick_patch is not None:
            tick_patch[0].datetime = tick_patch[1]
        if devnull is not None:
            _sys.stderr = real_stderr
        if sim_storage is not None:
            sim_storage.release()
        if old_cwd is not None:
            os.chdir(old_cwd)
            shutil.rmtree(probe.chdir_to, ignore_errors=True)

    # result_meta of every constructed instance
    for i, insts in built.instances.items():
        out.metas[i] = [(built.serial_of[id(t)], meta_tuple(t.result_meta)) for t in insts]
    if retention is not None:
        out.retention_violations = retention.violations
        out.retention_stats = {'checks': retention.checks, 'releases_seen': retention.releases_seen,
                               'retained_seen': retention.retained_seen}
    out.events = rec.events
    out.fault_counts = dict(rec.fault_counts)
    out.main_lines = rec.main_lines
    out.main_rpcs = rec.main_rpcs
    out.logs = rec.logs
    out.window_ops = ctl.window_log
    if sim is not None:
        out.vtime = sim.clock
        out.steps = sim.steps
        out.timeouts = sim.timeouts_fired
        out.trace = sim.trace
        if sim.aborted is not None and out.abort is None:
            out.abort = sim.aborted.reason
            out.abort_detail = sim.aborted.detail
    if storage_dir is not None and storage_kind != 'none' and sc.get('observe_after', True):
        out.cached_after = observe_cache(sc, storage_dir)
    return out
