"""S1 - coordinator simulation: a Runner of our own, given to
Lab(runner_backend=...) through the public RunnerBackend ABC.

It implements the documented Runner contract, models max_workers slots itself,
executes a task by calling the real run_or_load_task at a scheduler-chosen
instant (when it is started, or when it completes), and lets the choice stream
decide at every wait() which in-flight tasks complete in this batch (none, one
or several), in which order.
"""
from __future__ import annotations

from collections import deque
from typing import Iterator, Optional, Sequence

from labtech.exceptions import TaskDiedError
from labtech.runners.base import run_or_load_task
import labtech.tasks as _lt_tasks
from labtech.types import LabContext, ResultMeta, Runner, RunnerBackend, Storage, Task, TaskMonitorInfo, TaskResult

from .sim import SimAbort


class DieSignal(BaseException):
    """Raised by the probe inside run() when the plan says this task's worker
    dies (S1 reports it as TaskDiedError)."""


class _Sub:
    __slots__ = ('task', 'task_name', 'use_cache', 'outcome', 'node')

    def __init__(self, task, task_name, use_cache):
        self.task = task
        self.task_name = task_name
        self.use_cache = use_cache
        self.outcome = None
        self.node = task.ident


class SimRunner(Runner):

    def __init__(self, *, context: LabContext, storage: Storage, max_workers: Optional[int], host):
        self.context = context
        self.storage = storage
        self.host = host
        self.slots = max_workers if max_workers is not None else host.cpu_count
        self.queue: deque[_Sub] = deque()
        self.running: list[_Sub] = []
        self.results_map: dict[Task, TaskResult] = {}
        self.empty_polls = 0
        self.idle_waits = 0
        self.stopped = False

    # -- helpers
    def _execute(self, s: _Sub):
        task = s.task
        try:
            # the documented Runner contract (labtech.types.Runner.submit_task)
            deps_of = getattr(_lt_tasks, 'get_direct_dependency_instances', _lt_tasks.get_direct_dependencies)
            for dependency_task in deps_of(task):
                dependency_task._set_results_map(self.results_map)
            res = run_or_load_task(
                task=task,
                task_name=s.task_name,
                use_cache=s.use_cache,
                filtered_context=task.filter_context(self.context),
                storage=self.storage,
            )
            s.outcome = ('ok', res)
        except (KeyboardInterrupt, SimAbort):
            raise
        except DieSignal:
            s.outcome = ('err', TaskDiedError())
        except BaseException as ex:
            s.outcome = ('err', ex)

    def _start(self):
        host = self.host
        while self.queue and len(self.running) < self.slots:
            s = self.queue.popleft()
            self.running.append(s)
            host.rec.ev('start', s.node)
            if host.exec_at == 'start':
                self._execute(s)

    # -- Runner contract
    def submit_task(self, task: Task, task_name: str, use_cache: bool) -> None:
        self.host.rec.ev('submit', task.ident, bool(use_cache), task_name)
        self.queue.append(_Sub(task, task_name, use_cache))
        self._start()

    def wait(self, *, timeout_seconds: Optional[float]) -> Iterator[tuple[Task, ResultMeta | BaseException]]:
        host = self.host
        st = host.sched
        self._start()
        host.rec.ev('wait', [s.node for s in self.running], [s.node for s in self.queue])
        host.waits += 1
        if host.waits > host.wait_cap:
            raise SimAbort('wait-cap', f'{host.waits} wait() calls')
        if not self.running:
            self.idle_waits += 1
            host.rec.ev('idle-wait', self.idle_waits)
            if self.idle_waits > 3:
                raise SimAbort('spin', 'wait() called repeatedly with nothing in flight')
            return
        self.idle_waits = 0
        n = len(self.running)
        # how many complete in this batch: 0 (empty poll), 1, or several
        if self.empty_polls >= 2:
            k = 1 + st.weighted([6] + [2] * (n - 1))
        else:
            k = st.weighted([host.w_empty, 6] + [host.w_multi] * (n - 1))
        if k == 0:
            self.empty_polls += 1
            host.rec.ev('empty-poll')
            return
        self.empty_polls = 0
        chosen = []
        pool = list(self.running)
        for _ in range(k):
            if host.order == 'fifo':
                chosen.append(pool.pop(0))
            elif host.order == 'lifo':
                chosen.append(pool.pop())
            else:
                chosen.append(pool.pop(st.draw(len(pool))))
        for s in chosen:
            self.running.remove(s)
        # like the real executor: free slots are refilled before the batch is handed over
        self._start()
        host.rec.ev('batch', [s.node for s in chosen])
        for s in chosen:
            if s.outcome is None:
                self._execute(s)
            kind, payload = s.outcome
            s.outcome = None          # this runner must not keep results alive itself
            if kind == 'ok':
                self.results_map[s.task] = payload
                host.rec.ev('complete', s.node, 'ok')
                item = (s.task, payload.meta)
            else:
                host.rec.ev('complete', s.node, type(payload).__name__)
                item = (s.task, payload)
            del payload
            yield item
            del item

    def cancel(self) -> None:
        self.host.rec.ev('cancel', [s.node for s in self.queue])
        self.queue.clear()

    def stop(self) -> None:
        self.host.rec.ev('stop', [s.node for s in self.running])
        self.running.clear()
        self.stopped = True

    def close(self) -> None:
        self.host.rec.ev('close')

    def pending_task_count(self) -> int:
        return len(self.queue) + len(self.running)

    def get_result(self, task: Task) -> TaskResult:
        return self.results_map[task]

    def remove_results(self, tasks: Sequence[Task]) -> None:
        nodes = [t.ident for t in tasks]
        self.host.rec.ev('remove', nodes)
        for t in tasks:
            self.results_map.pop(t, None)

    def get_task_infos(self) -> list[TaskMonitorInfo]:
        return []


class SimBackend(RunnerBackend):
    def __init__(self, host):
        self.host = host
        self.runner: Optional[SimRunner] = None

    def build_runner(self, *, context: LabContext, storage: Storage, max_workers: Optional[int]) -> SimRunner:
        self.runner = SimRunner(context=context, storage=storage, max_workers=max_workers, host=self.host)
        return self.runner


class S1Host:
    def __init__(self, rec, sched, *, cpu_count=2, exec_at='complete', order='random',
                 w_empty=2, w_multi=3, wait_cap=400):
        self.rec = rec
        self.sched = sched
        self.cpu_count = cpu_count
        self.exec_at = exec_at
        self.order = order
        self.w_empty = w_empty
        self.w_multi = w_multi
        self.waits = 0
        self.wait_cap = wait_cap
