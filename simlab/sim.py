"""Scheduler core: baton-passing real threads, a virtual clock, an event log.

Exactly one entity (the coordinator's main thread, its helper threads, the
simulated worker processes) executes at any time.  At every yield point the
running entity computes the enabled actions and draws one from the choice
stream; one seed is one exactly repeatable execution.

The clock only advances when every coordinator-side entity is blocked (CPU
steps of the calling process cost zero virtual time).  Workers are not tied to
the clock: between two coordinator steps any number of worker steps may happen,
or none for many polls.
"""
from __future__ import annotations

import threading
from typing import Callable, Optional

from .choices import Choices


class SimAbort(BaseException):
    """Raised in the main thread when the simulation cannot continue."""

    def __init__(self, reason: str, detail: str = ''):
        super().__init__(f'{reason}: {detail}')
        self.reason = reason
        self.detail = detail


RAISED_HARNESS_ERRORS: list = []


class HarnessError(Exception):
    """The simulator cannot represent what the code under test just did (an unmodelled seam).  Whatever
    the code under test does with the exception, the run is reported as a harness error, never as a
    verdict about the property."""

    def __init__(self, *a):
        super().__init__(*a)
        RAISED_HARNESS_ERRORS.append(' '.join(str(x) for x in a)[:300])


class _Frozen(BaseException):
    """Unwinds the thread of a dead entity after the run is over."""


class Entity:
    __slots__ = ('sim', 'name', 'kind', 'coord', 'sem', 'state', 'cond', 'deadline', 'wake',
                 'pending_exc', 'steps', 'phase', 'phase_steps', 'node', 'sigint', 'thread',
                 'stdout', 'stderr', 'log_handlers', 'proc', 'files', 'blocked_in', 'gate_open',
                 'fork_memory', 'flavour', 'exit_code', 'index', 'tags')

    def __init__(self, sim: 'Sim', name: str, kind: str, coord: bool):
        self.sim = sim
        self.name = name
        self.kind = kind              # main | helper | worker
        self.coord = coord            # coordinator side (tied to the clock)
        self.sem = threading.Semaphore(0)
        self.state = 'new'            # new runnable blocked gated done killed
        self.cond: Optional[Callable[[], bool]] = None
        self.deadline: Optional[float] = None
        self.wake: Optional[str] = None
        self.pending_exc: Optional[BaseException] = None
        self.steps = 0
        self.phase = 'boot'           # boot pre run save post exit (workers)
        self.phase_steps = 0
        self.node: Optional[int] = None
        self.sigint = 'default'       # SIGINT disposition
        self.thread: Optional[threading.Thread] = None
        self.stdout = None
        self.stderr = None
        self.log_handlers: Optional[list] = None
        self.proc = None
        self.files: list = []
        self.blocked_in: Optional[str] = None
        self.gate_open = False
        self.fork_memory = None
        self.flavour = None
        self.exit_code: Optional[int] = None
        self.index = 0
        self.tags: dict = {}

    @property
    def alive(self) -> bool:
        return self.state in ('new', 'runnable', 'blocked', 'gated')

    def set_phase(self, phase: str) -> None:
        self.phase = phase
        self.phase_steps = 0

    def __repr__(self):
        return f'<{self.name} {self.state}>'


class Sim:
    STEP_CAP = 60000
    VTIME_CAP = 600.0

    def __init__(self, choices: Choices, *, params: Optional[dict] = None):
        self.ch = choices
        self.sched = choices.stream('sched')
        self.faults = choices.stream('fault')
        self.p = params or {}
        self.clock = 0.0
        self.events: list[tuple] = []
        self.entities: list[Entity] = []
        self.by_thread: dict[int, Entity] = {}
        self.main: Optional[Entity] = None
        self.current: Optional[Entity] = None
        self.steps = 0
        self.aborted: Optional[SimAbort] = None
        self.finished = False          # main left run_tasks: drain mode
        self.dead = False              # run is over; parked threads unwind
        self.burst_left = 0
        self.worker_count = 0
        self.helper_count = 0
        self.fault_counts: dict[str, int] = {}
        self.kill_callbacks: list = []      # called with the entity that was just killed
        self.exit_callbacks: list = []      # called with the entity whose body has just finished
        self.hooks: list = []          # objects with on_yield(sim, ent, kind, info)
        self.sched_hooks: list = []    # objects with on_schedule(sim)
        self.starve_workers = False
        self.timeouts_fired = 0
        self.quiet_polls = 0
        self.trace: list[tuple] = []   # human-readable fault decisions
        # swarm parameters
        self.w_coord = self.p.get('w_coord', 4)
        self.w_worker = self.p.get('w_worker', 4)
        self.w_timeout = self.p.get('w_timeout', 1)
        self.w_release = self.p.get('w_release', 2)
        self.burst = self.p.get('burst', 0)
        self.order = self.p.get('order', 'random')        # random fifo lifo
        self.gate_mode = self.p.get('gate_mode', 'free')  # free hold rest
        self.cap_steps = self.p.get('step_cap', self.STEP_CAP)
        # bounded unfairness: after this many consecutive timeouts fired while a worker could have
        # made progress, workers run exclusively for a while (a liveness verdict needs a fair scheduler)
        self.max_starve = self.p.get('max_starve', 6)
        self.starved = 0
        self.worker_turn = 0

    # ------------------------------------------------------------ recording
    def ev(self, *e) -> None:
        if self.dead:
            return      # threads unwinding after the run is over record nothing (their order is not scheduled)
        self.events.append(e)

    def fired(self, kind: str, n: int = 1) -> None:
        self.fault_counts[kind] = self.fault_counts.get(kind, 0) + n

    # ------------------------------------------------------------ entities
    def me(self) -> Optional[Entity]:
        return self.by_thread.get(threading.get_ident())

    def attach_main(self) -> Entity:
        e = Entity(self, 'main', 'main', True)
        e.state = 'runnable'
        e.thread = threading.current_thread()
        self.entities.append(e)
        self.by_thread[threading.get_ident()] = e
        self.main = e
        self.current = e
        return e

    def spawn_entity(self, name: str, kind: str, coord: bool, body: Callable[[Entity], None]) -> Entity:
        e = Entity(self, name, kind, coord)
        e.index = len(self.entities)
        self.entities.append(e)

        def _thread_main():
            self.by_thread[threading.get_ident()] = e
            try:
                e.sem.acquire()             # wait to be scheduled for the first time
                if self.dead or e.state == 'killed':
                    return
                body(e)
            except _Frozen:
                return
            except SimAbort:
                return
            except BaseException as ex:
                # e.g. a simulated signal delivered while the entity was already leaving: the entity is
                # over, and the baton must be handed on whatever happened
                if not self.dead and e.state not in ('done', 'killed') and self.current is e:
                    self.ev('entity-crashed', e.name, type(ex).__name__)
                    try:
                        self.exit_entity(e, 1)
                    except (_Frozen, SimAbort):
                        pass
            finally:
                self.by_thread.pop(threading.get_ident(), None)

        t = threading.Thread(target=_thread_main, name=f'sim-{name}', daemon=True)
        e.thread = t
        e.state = 'runnable'
        t.start()
        return e

    # ------------------------------------------------------------ yield points
    def yp(self, kind: str, info=None) -> None:
        """A yield point of the calling entity (which holds the baton)."""
        e = self.me()
        if e is None:
            return
        if self.dead:
            if e is self.main:
                return
            raise _Frozen()
        if self.aborted is not None and e is self.main:
            return
        if e is not self.current:
            raise HarnessError(f'{e} ran without the baton at {kind}')
        e.steps += 1
        e.phase_steps += 1
        for h in self.hooks:
            h.on_yield(self, e, kind, info)
        self._schedule(e)
        self._resume(e)

    def block(self, what: str, cond: Callable[[], bool], timeout: Optional[float] = None) -> str:
        """Block the calling entity until cond() holds, the timeout elapses, or a
        signal arrives.  Returns the wake reason: cond | timeout | abort."""
        e = self.me()
        if e is None:
            raise HarnessError(f'blocking seam operation {what} outside the simulation')
        if self.dead:
            if e is self.main:
                return 'cond' if cond() else 'timeout'
            raise _Frozen()
        if self.aborted is not None and e is self.main:
            return 'cond' if cond() else 'timeout'
        if e is not self.current:
            raise HarnessError(f'{e} ran without the baton at block:{what}')
        e.steps += 1
        e.phase_steps += 1
        for h in self.hooks:
            h.on_yield(self, e, 'block:' + what, None)
        if e.state != 'killed':
            e.state = 'blocked'
            e.cond = cond
            e.blocked_in = what
            e.deadline = None if timeout is None else self.clock + timeout
            e.wake = None
        self._schedule(e)
        reason = e.wake or 'cond'
        e.cond = None
        e.deadline = None
        e.blocked_in = None
        self._resume(e)
        return reason

    def gate(self) -> None:
        """Park the calling worker inside run() until the scheduler releases it."""
        e = self.me()
        if e is None:
            return
        if self.gate_mode == 'free' or self.finished or self.dead or e.kind != 'worker':
            self.yp('gate')
            return
        e.steps += 1
        e.phase_steps += 1
        for h in self.hooks:
            h.on_yield(self, e, 'gate', None)
        if e.state != 'killed':
            e.state = 'gated'
            e.gate_open = False
        self._schedule(e)
        self._resume(e)

    def _resume(self, e: Entity) -> None:
        if self.dead and e is not self.main:
            raise _Frozen()
        exc = e.pending_exc
        if exc is not None:
            e.pending_exc = None
            if isinstance(exc, BaseException):
                raise exc
            exc()       # a signal handler, executed by the entity itself
        if e is self.main and self.aborted is not None:
            raise self.aborted

    def exit_entity(self, e: Entity, code: int = 0) -> None:
        """The calling entity's body has finished; hand the baton on."""
        if self.dead:
            return
        if e.state != 'killed':
            e.state = 'done'
            e.exit_code = code
        if e.kind == 'worker':
            self.quiet_polls = 0
        for cb in self.exit_callbacks:
            cb(e)
        self._schedule(e, leaving=True)

    # ------------------------------------------------------------ scheduling
    def _enabled(self):
        acts = []
        coord_active = False
        earliest = None
        for e in self.entities:
            st = e.state
            if st == 'runnable':
                if e.kind == 'worker' and self.starve_workers:
                    continue
                acts.append(('run', e))
                if e.coord:
                    coord_active = True
            elif st == 'blocked':
                if e.pending_exc is not None or (e.cond is not None and e.cond()):
                    acts.append(('wake', e))
                    if e.coord:
                        coord_active = True
                elif e.deadline is not None:
                    if earliest is None or e.deadline < earliest.deadline:
                        earliest = e
            elif st == 'gated':
                if e.pending_exc is not None:
                    acts.append(('release', e))
                elif self.starve_workers:
                    continue
                elif self.gate_mode == 'hold' or self.finished or e.gate_open:
                    acts.append(('release', e))
                elif self.gate_mode == 'rest' and self.quiet_polls >= 4:
                    acts.append(('release', e))
        if earliest is not None and not coord_active:
            acts.append(('timeout', earliest))
        return acts

    def _weight(self, act) -> int:
        k, e = act
        if k == 'timeout':
            return self.w_timeout
        if k == 'release':
            return self.w_release
        if e.coord:
            return self.w_coord
        return self.w_worker

    def _pick(self, acts, cur: Entity):
        if len(acts) == 1:
            return acts[0]
        if not self.starve_workers:
            wacts = [a for a in acts if a[1].kind == 'worker' and a[0] != 'timeout']
            has_timeout = any(a[0] == 'timeout' for a in acts)
            if wacts and (self.worker_turn > 0 or (has_timeout and self.starved >= self.max_starve)):
                if self.worker_turn == 0:
                    self.worker_turn = 60
                self.worker_turn -= 1
                self.starved = 0
                acts = [a for a in acts if a[0] != 'timeout']
                if len(acts) == 1:
                    return acts[0]
            elif not wacts:
                self.worker_turn = 0
        if self.burst_left > 0:
            for a in acts:
                if a[1] is cur and a[0] == 'run':
                    self.burst_left -= 1
                    return a
        if self.order != 'random':
            ws = [a for a in acts if a[1].kind == 'worker' and a[0] != 'timeout']
            if len(ws) > 1:
                keep = ws[0] if self.order == 'fifo' else ws[-1]
                acts = [a for a in acts if a not in ws or a is keep]
                if len(acts) == 1:
                    return acts[0]
        i = self.sched.weighted([self._weight(a) for a in acts])
        a = acts[i]
        if self.burst:
            self.burst_left = self.sched.draw(self.burst + 1)
        return a

    def _schedule(self, cur: Entity, leaving: bool = False) -> None:
        """Runs with the baton.  Decides who executes next and hands over."""
        self.steps += 1
        if self.aborted is None:
            if self.steps > self.cap_steps:
                self._set_abort('step-cap', f'{self.steps} scheduler steps; {self._describe()}')
            else:
                for h in self.sched_hooks:
                    h.on_schedule(self)
        nxt = None
        if self.aborted is None:
            acts = self._enabled()
            if not acts:
                if self.main is not None and self.main.state == 'done':
                    return
                self._set_abort('deadlock', self._describe())
            else:
                k, e = self._pick(acts, cur)
                if k == 'timeout':
                    if any(x.kind == 'worker' and x.state in ('runnable', 'gated') for x in self.entities):
                        self.starved += 1
                    if e.deadline > self.clock:
                        self.clock = e.deadline
                    self.timeouts_fired += 1
                    self.quiet_polls += 1
                    self.ev('timeout', e.name, round(self.clock, 3))
                    e.state = 'runnable'
                    e.wake = 'timeout'
                    if self.clock > self.VTIME_CAP:
                        self._set_abort('vtime-cap', f'{self.clock} virtual seconds')
                elif k == 'wake':
                    e.state = 'runnable'
                    e.wake = 'cond'
                elif k == 'release':
                    e.state = 'runnable'
                    self.ev('release', e.name)
                nxt = e
        if self.aborted is not None:
            nxt = self.main
        if nxt is None:
            return
        if nxt is cur and not leaving:
            self.current = cur
            return
        self.current = nxt
        nxt.sem.release()
        if leaving:
            return
        cur.sem.acquire()
        if self.dead and cur is not self.main:
            raise _Frozen()

    def _set_abort(self, reason: str, detail: str) -> None:
        """Stop simulating: every other entity is frozen, the main thread gets
        SimAbort at its next resume and its seam operations no longer schedule."""
        self.aborted = SimAbort(reason, detail)
        self.ev('abort', reason)
        m = self.main
        for x in self.entities:
            if x is not m and x.alive:
                x.state = 'killed'
        if m is not None and m.state in ('blocked', 'gated'):
            m.state = 'runnable'
            m.wake = 'abort'

    def _describe(self) -> str:
        return ' '.join(f'{e.name}:{e.state}:{e.blocked_in}:{e.phase}' for e in self.entities
                        if e.state not in ('done',))

    # ------------------------------------------------------------ faults
    def kill(self, e: Entity, how: str, flush_first: bool = False) -> None:
        """SIGKILL / SIGTERM semantics: the entity never runs again: no finally,
        no with-exit, no flush; unflushed user-space file buffers are lost."""
        if not e.alive:
            return
        e.state = 'killed'
        # terminate: SIGTERM; kill: SIGKILL / OOM killer; exit0 / exit1: the task's code called os._exit()
        e.exit_code = {'terminate': -15, 'kill': -9, 'exit0': 0, 'exit1': 1}.get(how, -9)
        self.quiet_polls = 0
        self.ev('kill', e.name, how, e.phase, e.node, e.phase_steps, flush_first)
        self.trace.append(('kill', e.name, how, e.phase, e.phase_steps))
        self.fired('kill:' + how)
        self.fired('kill-in:' + e.phase)
        for f in list(e.files):
            f.lose_buffers(flush_first)
        for cb in self.kill_callbacks:
            cb(e)

    def note_progress(self) -> None:
        self.quiet_polls = 0

    # ------------------------------------------------------------ end of run
    def drain(self) -> None:
        """Main has left run_tasks.  Let every remaining entity run to the end
        (orphan workers keep running in reality too); gates open."""
        self.finished = True
        self.starve_workers = False
        m = self.main
        if m is None or self.aborted is not None or self.me() is not m or self.dead:
            return

        def quiet() -> bool:
            for x in self.entities:
                if x is m:
                    continue
                if x.state in ('runnable', 'gated'):
                    return False
                if x.state == 'blocked' and (x.deadline is not None or x.pending_exc is not None
                                             or (x.cond is not None and x.cond())):
                    return False
            return True

        try:
            self.block('drain', quiet)
        except SimAbort:
            pass
        except KeyboardInterrupt:
            pass

    def shutdown(self) -> None:
        """The run is over.  Threads of entities that never finished are unwound
        (all their seam operations raise _Frozen and touch nothing)."""
        self.dead = True
        self.by_thread.pop(threading.get_ident(), None)
        pending = []
        for e in self.entities:
            if e is self.main or e.thread is None:
                continue
            if e.thread.is_alive():
                e.sem.release()
                pending.append(e.thread)
        for t in pending:
            t.join(2.0)
        self.leaked = sum(1 for t in pending if t.is_alive())
