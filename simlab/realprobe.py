"""S3 real-OS probe for C16 (process model promised by each backend).

Run as a child interpreter:  python -m simlab.realprobe <backend> <max_workers|none>
Prints one JSON object.  No schedule dependence: every observation is made
from inside run() and returned as the task's result.
"""
from __future__ import annotations

import json
import multiprocessing
import os
import sys
import threading
from typing import Any

import labtech

PROBE_GLOBAL = 'import-time'


@labtech.task(cache=None)
class EnvProbe:
    ident: int
    deps: Any = ()

    def filter_context(self, context):
        return {k: v for k, v in context.items() if k in ('keep', f'only{self.ident}')}

    def run(self):
        for d in self.deps:
            _ = d.result
        return {
            'ident': self.ident,
            'pid': os.getpid(),
            'ppid': os.getppid(),
            'main_thread': threading.current_thread() is threading.main_thread(),
            'proc_class': type(multiprocessing.current_process()).__name__,
            'global': PROBE_GLOBAL,
            'context': dict(self.context),
        }


def main(argv) -> int:
    global PROBE_GLOBAL
    backend = argv[1]
    mw = None if argv[2] == 'none' else int(argv[2])
    # the parent mutates a module global after import: a forked child inherits
    # the mutation, a freshly started interpreter sees the import-time value
    PROBE_GLOBAL = 'mutated-by-parent'
    a = EnvProbe(ident=1)
    b = EnvProbe(ident=2)
    c = EnvProbe(ident=3, deps=(a, b))
    context = {'keep': 'K', 'only1': 1, 'only2': 2, 'only3': 3, 'drop': 'D'}
    import logging
    labtech.logger.setLevel(logging.CRITICAL)
    first = None
    if '+' in backend:
        # an earlier run of the same interpreter used another process backend
        first, backend = backend.split('+')
        lab0 = labtech.Lab(storage=None, max_workers=mw, notebook=False, context=context, runner_backend=first)
        lab0.run_tasks([EnvProbe(ident=7), EnvProbe(ident=8)], disable_progress=True, disable_top=True)
    lab = labtech.Lab(storage=None, max_workers=mw, notebook=False, context=context, runner_backend=backend)
    res = lab.run_tasks([c, a, b], disable_progress=True, disable_top=True)
    out = {
        'backend': backend,
        'earlier_backend': first,
        'max_workers': mw,
        'caller_pid': os.getpid(),
        'results': [res[t] for t in (a, b, c)],
    }
    sys.stdout.write('PROBE ' + json.dumps(out) + '\n')
    sys.stdout.flush()
    return 0


if __name__ == '__main__':
    sys.exit(main(sys.argv))
