"""Process-local probe that task run() bodies report to.

The active probe is the simulator's recorder in S0/S1/S2 (also a yield point,
a gate, and the place where planned raise/die faults fire and where the
message patterns of C19 are emitted) and an append-only file writer in S3.
"""
from __future__ import annotations


class PlannedFailure(Exception):
    """Raised inside run() by a planned 'raise' fault."""

    def __init__(self, ident: int):
        super().__init__(f'planned failure of node {ident}')
        self.ident = ident

    def __reduce__(self):
        return (PlannedFailure, (self.ident,))


class NullProbe:
    def begin(self, task):
        pass

    def read(self, task, dep, value):
        pass

    def read_fail(self, task, dep, exc):
        pass

    def work(self, task):
        pass

    def end(self, task, value):
        pass

    def shape(self, task):
        return None


ACTIVE = NullProbe()


def set_active(p) -> None:
    global ACTIVE
    ACTIVE = p if p is not None else NullProbe()
