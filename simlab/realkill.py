"""S3 real-OS probe for C13: a real worker process (fork backend) is killed with SIGKILL at the
k-th file operation of its save; afterwards a new Lab over a plain LocalStorage must either not
report the task as cached or load a complete correct value.

Run as:  python simlab/realkill.py <dir> <mode: first|overwrite> <k> [count]
prints 'KILLPROBE <json>' ; with 'count' it only counts the file operations of a save.
"""
import json
import os
import signal
import sys

import labtech
from labtech.storage import LocalStorage

STATE = {'n': 0, 'kill_at': None, 'armed': False}


class KFile:
    def __init__(self, real):
        self._real = real

    def _op(self):
        if STATE['armed']:
            if STATE['kill_at'] is not None and STATE['n'] == STATE['kill_at']:
                os.kill(os.getpid(), signal.SIGKILL)     # buffered data dies with the process
            STATE['n'] += 1

    def write(self, data):
        self._op()
        return self._real.write(data)

    def close(self):
        self._op()
        return self._real.close()

    def __enter__(self):
        return self

    def __exit__(self, *a):
        self.close()
        return False

    def __getattr__(self, name):
        return getattr(self._real, name)


class KillingStorage(LocalStorage):
    def file_handle(self, key, filename, *, mode='r'):
        if 'r' in mode:
            return super().file_handle(key, filename, mode=mode)
        if STATE['armed']:
            if STATE['kill_at'] is not None and STATE['n'] == STATE['kill_at']:
                os.kill(os.getpid(), signal.SIGKILL)
            STATE['n'] += 1
        return KFile(super().file_handle(key, filename, mode=mode))


@labtech.task
class Payload:
    size: int
    gen: int = 0

    def run(self):
        STATE['armed'] = self.context.get('arm', False)
        count_path = self.context.get('count_path')
        value = {'gen': self.context['gen'], 'data': 'x' * self.size}
        if count_path:
            import atexit
            # counting mode: report the number of operations when the worker exits normally
            atexit.register(lambda: open(count_path, 'w').write(str(STATE['n'])))
        return value


def main(argv):
    import logging
    d, mode, k = argv[1], argv[2], int(argv[3])
    counting = len(argv) > 4
    labtech.logger.setLevel(logging.CRITICAL)
    store = os.path.join(d, 'storage')
    task = Payload(size=50_000)
    if mode == 'overwrite':
        lab0 = labtech.Lab(storage=store, runner_backend='serial', notebook=False, context={'gen': 0})
        lab0.run_tasks([task], disable_progress=True, disable_top=True)
    STATE['kill_at'] = None if counting else k
    lab = labtech.Lab(storage=KillingStorage(store), runner_backend='fork', notebook=False,
                      context={'gen': 1, 'arm': True, 'count_path': os.path.join(d, 'count') if counting else None},
                      max_workers=1)
    res = lab.run_tasks([Payload(size=50_000)], bust_cache=(mode == 'overwrite'), disable_progress=True, disable_top=True)
    if counting:
        import time
        t0 = time.time()
        while not os.path.exists(os.path.join(d, 'count')) and time.time() - t0 < 10:
            time.sleep(0.02)
        n = int(open(os.path.join(d, 'count')).read())
        sys.stdout.write('KILLPROBE ' + json.dumps({'ops': n}) + '\n')
        return 0
    died = len(res) == 0
    lab2 = labtech.Lab(storage=store, runner_backend='serial', notebook=False, context={'gen': 2}, continue_on_failure=False)
    t2 = Payload(size=50_000)
    out = {'k': k, 'mode': mode, 'worker_died': died}
    try:
        out['is_cached'] = bool(lab2.is_cached(t2))
        out['listed'] = len(lab2.cached_tasks([Payload]))
    except Exception as ex:
        out['observe_error'] = f'{type(ex).__name__}: {ex}'
    try:
        v = lab2.run_task(Payload(size=50_000), disable_progress=True, disable_top=True)
        out['later_run'] = {'gen': v['gen'], 'len': len(v['data'])}
    except Exception as ex:
        out['later_run_error'] = f'{type(ex).__name__}: {str(ex)[:120]}'
    sys.stdout.write('KILLPROBE ' + json.dumps(out) + '\n')
    sys.stdout.flush()
    return 0


if __name__ == '__main__':
    sys.exit(main(sys.argv))
