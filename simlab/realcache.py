"""S3 real-OS probe for C06: first run and second run with real backends, task
classes defined in the __main__ script (what most users of the spawn backend do:
a spawned child sees them as __mp_main__.<name>).

Run as:  python simlab/realcache.py <backend1> <backend2> <storage_dir>
Prints one line 'CACHEPROBE <json>'.
"""
import json
import os
import sys

import labtech


@labtech.task
class Leaf:
    n: int

    def run(self):
        with open(os.path.join(self.context['log_dir'], 'exec.log'), 'a') as f:
            f.write(f'Leaf{self.n}\n')
        return {'leaf': self.n}


@labtech.task
class Sum:
    leaves: list
    label: str = 'x'

    def run(self):
        with open(os.path.join(self.context['log_dir'], 'exec.log'), 'a') as f:
            f.write('Sum\n')
        return {'sum': sum(leaf.result['leaf'] for leaf in self.leaves), 'label': self.label}


def main(argv):
    import logging
    b1, b2, d = argv[1], argv[2], argv[3]
    labtech.logger.setLevel(logging.CRITICAL)
    storage = os.path.join(d, 'storage')
    context = {'log_dir': d}

    def tasks():
        return [Sum(leaves=[Leaf(n=1), Leaf(n=2)]), Leaf(n=1)]

    lab1 = labtech.Lab(storage=storage, runner_backend=b1, notebook=False, context=context, max_workers=2)
    t1 = tasks()
    r1 = lab1.run_tasks(t1, disable_progress=True, disable_top=True)
    log1 = open(os.path.join(d, 'exec.log')).read().split()
    cached = {repr(t): bool(lab1.is_cached(t)) for t in t1 + [Leaf(n=2)]}
    lab2 = labtech.Lab(storage=storage, runner_backend=b2, notebook=False, context=context, max_workers=2)
    t2 = tasks()
    r2 = lab2.run_tasks(t2, disable_progress=True, disable_top=True)
    log2 = open(os.path.join(d, 'exec.log')).read().split()
    out = {
        'b1': b1, 'b2': b2,
        'first': [r1.get(t) for t in t1], 'second': [r2.get(t) for t in t2],
        'executed_first': sorted(log1), 'executed_second': sorted(log2[len(log1):]),
        'is_cached_after_first': cached,
        'meta_first': [str(t.result_meta) for t in t1], 'meta_second': [str(t.result_meta) for t in t2],
        'keys': [t.cache_key for t in t1],
    }
    sys.stdout.write('CACHEPROBE ' + json.dumps(out) + '\n')
    sys.stdout.flush()
    return 0


if __name__ == '__main__':
    sys.exit(main(sys.argv))
