"""C14: one Ctrl-C drains the run gracefully; a second one stops it at once.

* S0 (serial backend), exhaustive: one run per line-event index executed by the
  calling thread inside labtech during run_tasks, for small fixed workloads;
  plus sampled pairs for the double interrupt.
* S2 (simulated fork/spawn), sampled: first interrupt at a drawn main-thread
  line boundary or while the main thread is blocked (in the helper thread's
  join, as in reality), second interrupt likewise or absent; the children take
  the signal according to their recorded SIGINT disposition.
"""
from __future__ import annotations

import gc
import os
import shutil
import tempfile

import labtech

from . import oracles as O
from .choices import Choices
from .execute import Rec, execute, probe_load, quiet_logger, restore_logger
from .props import Check, compact_spec, gen_scenario, result_record
from .spec import Built, Ref, base_context

WORKLOADS = {
    'chain': {
        'nodes': [
            {'id': 0, 'type': 'TA', 'tag': 'a', 'deps': ['t', []], 'opt': ['s', 'none', None]},
            {'id': 1, 'type': 'TD', 'tag': 'b', 'deps': ['t', [['ref', 0, 0]]], 'opt': ['s', 'none', None]},
            {'id': 2, 'type': 'TB', 'tag': 'a', 'deps': ['d', [['k', ['ref', 1, 0]], ['j', ['ref', 0, 1]]]], 'opt': ['s', 'none', None]},
            {'id': 3, 'type': 'TN', 'tag': 'a', 'deps': ['t', []], 'opt': ['s', 'int', 7]},
        ],
        'requested': [[2, 0], [3, 0]],
    },
    'warm-diamond': {
        'nodes': [
            {'id': 0, 'type': 'TA', 'tag': 'a', 'deps': ['t', []], 'opt': ['s', 'none', None]},
            {'id': 1, 'type': 'TB', 'tag': 'a', 'deps': ['t', [['ref', 0, 0]]], 'opt': ['s', 'none', None]},
            {'id': 2, 'type': 'TB', 'tag': 'b', 'deps': ['l', [['ref', 0, 0]]], 'opt': ['s', 'none', None]},
            {'id': 3, 'type': 'TP', 'tag': 'a', 'deps': ['t', [['ref', 1, 0], ['ref', 2, 0]]], 'opt': ['s', 'none', None],
             'ctxkeys': ['alpha']},
        ],
        'requested': [[3, 0], [1, 0]],
        'cached': [0],
    },
}


def s0_scenario(name: str) -> dict:
    w = WORKLOADS[name]
    sc = {
        'nodes': w['nodes'], 'requested': w['requested'], 'backend': 'serial', 'max_workers': 1, 'cpu_count': 1,
        'cof': True, 'gen_pre': 0, 'gen_main': 1, 'observe_after': False,
    }
    if 'cached' in w:
        sc['cached'] = list(w['cached'])
    return sc


def s2_scenario(name: str, backend: str) -> dict:
    sc = s0_scenario(name)
    sc.update({'backend': backend, 'max_workers': 2, 'cpu_count': 2,
               'swarm': {'w_coord': 3, 'w_worker': 3, 'w_timeout': 2, 'w_release': 1, 'burst': 2, 'order': 'random', 'gate_mode': 'hold'}})
    return sc


def cache_consistency(prop: str, sc: dict, storage_dir: str, **sig) -> list:
    """Every entry reported cached afterwards loads a complete correct value."""
    gc.collect()
    ref = Ref(sc)
    pre = ref.evaluate(base_context(sc.get('gen_pre', 0)))
    execute_set, load_set = O.expected_plan(sc, ref)
    exp = O.expected_values(sc, ref, load_set)
    built = Built({**sc, 'requested': []})
    rec = Rec()
    saved = quiet_logger(rec)
    vs = []
    try:
        lab = labtech.Lab(storage=storage_dir, notebook=False, runner_backend='serial')
        cached = {}
        for i in sorted(ref.nodes):
            try:
                cached[i] = bool(lab.is_cached(built.get(i, 1)))
            except Exception as ex:
                vs.append(O.V(prop, 'is_cached-raises', f'is_cached(node {i}) raised {type(ex).__name__}', **sig))
    finally:
        restore_logger(saved)
    for i, c in cached.items():
        if not c:
            continue
        r = probe_load(sc, storage_dir, i, base_context(sc.get('gen_main', 1)))
        if r[0] == 'error':
            vs.append(O.V(prop, 'cached-but-unloadable', f'node {i} is reported cached after the interrupt but a later run fails: '
                          f'{r[1]["type"]} caused by {r[1]["cause"]}: {r[1]["msg"][:120]}', **sig))
        elif r[0] == 'loaded' and r[1] not in (exp.get(i), pre.get(i)):
            vs.append(O.V(prop, 'cached-wrong-value', f'node {i} loads {r[1]!r}; acceptable {exp.get(i)!r} / {pre.get(i)!r}', **sig))
    return vs


def interrupt_facts(out):
    """Instants at which a KeyboardInterrupt was raised in the calling thread: the terminal's SIGINT
    itself, or - if SIGINT was blocked in the caller then - the moment the mask was restored (several
    pending arrivals collapse into one).  A SIGINT that the caller ignored is listed too (the caller
    was interrupted; that nothing was raised is for the oracle to judge)."""
    ev = out.events
    sig = []
    used_unblock = set()
    for i, e in enumerate(ev):
        if e[0] != 'sigint':
            continue
        status = e[4] if len(e) > 4 else 'delivered'
        if status == 'pending-in-caller':
            j = next((k for k in range(i + 1, len(ev)) if ev[k][0] == 'sigint-unblocked'), None)
            if j is None or j in used_unblock:
                continue
            used_unblock.add(j)
            sig.append((j, e))
        else:
            sig.append((i, e))
    return sig


def check_serial_interrupt(sc, out, d, n_interrupts: int) -> list:
    vs = []
    sigs = interrupt_facts(out)
    if not sigs:
        return vs
    where = sigs[0][1][2]
    if out.kind == 'abort':
        return [O.V('C14', 'no-termination', f'{out.abort}: {out.abort_detail[:200]}', backend='serial')]
    if out.kind == 'return':
        vs.append(O.V('C14', 'returned-normally', 'run_tasks returned normally although the caller was interrupted', backend='serial'))
    elif out.exc['type'] != 'KeyboardInterrupt':
        vs.append(O.V('C14', 'wrong-exception', f'run_tasks raised {out.exc["type"]} ({out.exc["msg"][:100]}) instead of KeyboardInterrupt',
                      backend='serial', exc=out.exc['type']))
    first = sigs[0][0]
    for idx in range(first + 1, len(out.events)):
        e = out.events[idx]
        if e[0] == 'begin':
            vs.append(O.V('C14', 'started-after-interrupt', f'node {e[1]} began after the interrupt', backend='serial'))
            break
    vs += cache_consistency('C14', sc, d, backend='serial')
    return vs


def check_process_interrupt(sc, out, facts, d) -> list:
    vs = []
    sigs = interrupt_facts(out)
    if not sigs:
        return vs
    backend = sc['backend']
    first = sigs[0][0]
    second = sigs[1][0] if len(sigs) > 1 else None
    if not sc.get('cof', True) and any(e[0] == 'complete' and len(e) > 2 and e[2] != 'ok' for e in out.events[:first]):
        # continue_on_failure=False and a failure had been processed before the interrupt arrived: run_tasks was
        # already on its way out with LabError (the tasks still running are abandoned, as that mode specifies);
        # which of the two exceptions leaves it is not for this property to say
        return cache_consistency('C14', sc, d, backend='process')
    if out.kind == 'abort':
        code = 'waited-for-workers' if (second is not None and out.abort == 'deadlock') else 'no-termination'
        return [O.V('C14', code, f'{out.abort}: {out.abort_detail[:240]}', backend='process', interrupts=len(sigs))]
    if out.kind == 'return':
        vs.append(O.V('C14', 'returned-normally', 'run_tasks returned normally although the caller was interrupted', backend='process'))
    elif out.exc['type'] != 'KeyboardInterrupt':
        child_sig = any(e[0] == 'sigint-child' for e in out.events)
        vs.append(O.V('C14', 'wrong-exception', f'run_tasks raised {out.exc["type"]} ({out.exc["msg"][:100]}) instead of KeyboardInterrupt; '
                      f'interrupt #1 landed while main was {sigs[0][1][2]}', backend='process', exc=out.exc['type'],
                      child_took_signal=child_sig, start_method=backend))
    # no task process is started after the (first) interrupt.  If SIGINT was blocked in the calling
    # thread at that instant the caller is interrupted when the mask is restored.
    for idx in range(first + 1, len(out.events)):
        e = out.events[idx]
        if e[0] == 'pstart':
            vs.append(O.V('C14', 'started-after-interrupt', f'process {e[1]} was started after the interrupt', backend='process'))
            break
    left = facts.left_idx if facts.left_idx is not None else len(out.events)
    started_before = [e[1] for e in out.events[:first] if e[0] == 'pstart']
    fate = {}     # when a worker stopped executing its task: result queued, exit, or kill
    for idx, e in enumerate(out.events):
        if e[0] == 'kill':
            fate.setdefault(e[1], ('killed', idx, e[2]))
        elif e[0] == 'pexit':
            fate.setdefault(e[1], ('exit', idx, e[2]))
        elif e[0] == 'qput' and e[3] in ('result', 'exc'):
            fate.setdefault(e[2], ('queued', idx, e[3]))
    took_signal = {e[1] for e in out.events if e[0] == 'sigint-child'} | {e[1] for e in out.events if e[0] == 'sigint-child-late'}
    if took_signal and out.kind == 'raise' and out.exc['type'] == 'KeyboardInterrupt':
        # a task process took the terminal's SIGINT with Python's default handler (it was neither blocking nor
        # ignoring it at that instant): its task is interrupted instead of being allowed to finish
        w0 = sorted(took_signal)[0]
        ev0 = next(e for e in out.events if e[0] in ('sigint-child', 'sigint-child-late') and e[1] == w0)
        vs.append(O.V('C14', 'worker-took-interrupt', f'task process {w0} was interrupted by the Ctrl-C (phase {ev0[2] if len(ev0) > 2 else "?"}): a task '
                      f'that was executing is not allowed to finish', backend='process', start_method=backend))
    if second is None:
        # single interrupt: running workers are allowed to finish, results cached
        for w in started_before:
            f = fate.get(w)
            if f is not None and f[0] == 'killed' and f[2] == 'terminate':
                vs.append(O.V('C14', 'terminated-on-first-interrupt', f'worker {w} was terminated after a single interrupt', backend='process'))
            if (f is None or f[1] > left) and out.kind == 'raise' and out.exc['type'] == 'KeyboardInterrupt':
                if w not in took_signal:
                    vs.append(O.V('C14', 'did-not-wait', f'run_tasks raised before worker {w} (started before the interrupt) had finished',
                                  backend='process'))
        ref = facts.ref
        ended_ok = {n for n, lst in facts.ends.items()}
        bad_nodes = {e[3] for e in out.events if e[0] == 'sigint-child'}
        if out.kind == 'raise':
            for n in sorted(ended_ok):
                who = facts.begin_who[n][0]
                if who in started_before and ref.cacheable(n) and n not in bad_nodes and who not in took_signal:
                    if not O.observe_is_cached(sc, d, n):
                        vs.append(O.V('C14', 'result-not-cached', f'node {n} was executing when the interrupt arrived and finished, '
                                      f'but its result is not cached', backend='process'))
                        break
    else:
        # double interrupt: tasks still executing at the second one are terminated at once
        executing = []
        alive = {}
        for idx, e in enumerate(out.events[:second]):
            if e[0] == 'pstart':
                alive[e[1]] = True
            elif e[0] in ('kill', 'pexit'):
                alive.pop(e[1], None)
            elif e[0] == 'qput' and e[3] in ('result', 'exc'):
                alive.pop(e[2], None)      # its task is over; only the process exit is left
        gap = sigs[1][1][3] - sigs[0][1][3]      # main-thread labtech lines executed between the two interrupts
        # the handler of the first interrupt is armed for a second one once it has reached runner.cancel()
        armed = any(e[0] == 'cancel' for e in out.events[first:second])
        for w in alive:
            f = fate.get(w)
            if f is None or f[1] > left:
                vs.append(O.V('C14', 'not-terminated', f'worker {w} was still executing at the second interrupt and is still alive when '
                              f'run_tasks raises (second interrupt landed while main was {sigs[1][1][2]}, {gap} main-thread line(s) '
                              f'after the first; first handler {"had" if armed else "had not yet"} reached runner.cancel())', backend='process', second_before_handler_armed=(not armed),
                              child_took_signal=any(e[0] == 'sigint-child' for e in out.events), start_method=backend))
                break
    vs += cache_consistency('C14', sc, d, backend='process')
    return vs


class C14(Check):
    id = 'C14'
    owns_liveness = True
    level = 'fault_enumeration'
    mixed = True
    quick_runs = 1600
    thorough_runs = 16000
    principal_faults = ('sigint',)
    expected_probes = ('sigint-while-t.join', 'sigint-while-running', 'second-interrupt', 'interrupt-with-workers-executing',
                       'sigint-inside-proxy-call')
    rule = ('serial backend: one run per interrupt check point (function entry, loop back-edge, return from a C call, call of a '
            'non-labtech Python function) of the calling thread inside labtech during run_tasks (exhaustive per workload) plus sampled interrupt pairs; process backends: seeded (specification, schedule, interrupt instants); '
            'distinct = distinct (specification digest, schedule digest, interrupt instants); non-trivial = an interrupt was delivered')

    def components(self):
        from .props import REAL_VS_STUB
        return REAL_VS_STUB

    # -- S0 exhaustive
    def enumerate_cases(self, tier, base_seed, workdir):
        cases = []
        info = []
        for name in WORKLOADS:
            sc = s0_scenario(name)
            sc['count_lines'] = True
            d = tempfile.mkdtemp(dir=workdir)
            try:
                out = execute(sc, Choices(seed='c14ref'), d)
            finally:
                shutil.rmtree(d, ignore_errors=True)
            n = out.main_lines
            for k in range(n):
                cases.append({'workload': name, 'interrupts': [{'mode': 'line', 'k': k}]})
            # sampled pairs for the double interrupt
            import random
            rng = random.Random(f'{base_seed}:{name}:pairs')
            pairs = 500 if tier == 'quick' else 4000
            for _ in range(pairs):
                k1 = rng.randrange(n)
                # (half of the second interrupts arrive within the first few check points after the first one:
                # inside the first handler's log call, before / around its cancel())
                u = rng.random()
                k2 = rng.randrange(6) if u < 0.5 else (rng.randrange(60) if u < 0.8 else rng.randrange(400))
                cases.append({'workload': name, 'interrupts': [{'mode': 'line', 'k': k1}, {'mode': 'line', 'k': k2}]})
            info.append({'workload': name, 'check_points_in_run_tasks': n, 'sampled_pairs': pairs})
        # process backends: for fixed workloads and fixed schedules, every main-thread line boundary too
        combos = [('fork', 'chain')] if tier == 'quick' else [(b, w) for b in ('fork', 'spawn') for w in WORKLOADS]
        for backend, name in combos:
            if True:
                for sched in ((1,) if tier == 'quick' else (1, 2, 3)):
                    sc = s2_scenario(name, backend)
                    sc['count_lines'] = True
                    d = tempfile.mkdtemp(dir=workdir)
                    try:
                        out = execute(sc, Choices(seed=f'c14s2:{sched}'), d)
                    finally:
                        shutil.rmtree(d, ignore_errors=True)
                    n = out.main_lines
                    for k in range(n):
                        cases.append({'workload': name, 'backend': backend, 'sched': sched, 'interrupts': [{'mode': 'line', 'k': k}]})
                    import random
                    rng = random.Random(f'{base_seed}:{name}:{backend}:{sched}:pairs')
                    for _ in range(200 if tier == 'quick' else 1000):
                        k1 = rng.randrange(n)
                        u = rng.random()
                        k2 = rng.randrange(6) if u < 0.5 else (rng.randrange(60) if u < 0.8 else rng.randrange(300))
                        cases.append({'workload': name, 'backend': backend, 'sched': sched,
                                      'interrupts': [{'mode': 'line', 'k': k1}, {'mode': 'line', 'k': k2}]})
                    # ... and every manager proxy call of the calling thread (its queue polls), between the
                    # request being sent and the reply being read - with and without the task monitor, whose
                    # polls of the process-event queue are proxy calls of the calling thread as well
                    n_rpcs = {}
                    for monitor in (False, True):
                        sc = s2_scenario(name, backend)
                        if monitor:
                            sc['progress'] = True
                        sc['count_lines'] = True
                        d = tempfile.mkdtemp(dir=workdir)
                        try:
                            out = execute(sc, Choices(seed=f'c14s2:{sched}'), d)
                        finally:
                            shutil.rmtree(d, ignore_errors=True)
                        if monitor and tier == 'thorough' and sched == 1:
                            # every main-thread line boundary with the task monitor enabled, too
                            for k in range(out.main_lines):
                                cases.append({'workload': name, 'backend': backend, 'sched': sched, 'monitor': True,
                                              'interrupts': [{'mode': 'line', 'k': k}]})
                        n_rpc = out.main_rpcs
                        n_rpcs['monitor' if monitor else 'plain'] = n_rpc
                        for k in range(n_rpc):
                            cases.append({'workload': name, 'backend': backend, 'sched': sched, 'monitor': monitor,
                                          'interrupts': [{'mode': 'rpc', 'k': k}]})
                        for _ in range(40 if tier == 'quick' else 200):
                            k1 = rng.randrange(max(1, n_rpc))
                            second = {'mode': 'rpc', 'k': rng.randrange(12)} if rng.random() < 0.5 else {'mode': 'line', 'k': rng.randrange(200)}
                            cases.append({'workload': name, 'backend': backend, 'sched': sched, 'monitor': monitor,
                                          'interrupts': [{'mode': 'rpc', 'k': k1}, second]})
                    info.append({'workload': name, 'backend': backend, 'schedule': sched, 'check_points_in_run_tasks': n,
                                 'proxy_calls_in_run_tasks': n_rpcs})
        return cases, {'exhaustive': True, 'per_workload': info,
                       'what': 'single interrupt at every check point (the instants at which CPython 3.12 can raise KeyboardInterrupt: function entry, '
                               'loop back-edge, return from a C call, call of a non-labtech Python function) of the calling thread inside '
                               'labtech during run_tasks: serial backend (two workloads) and simulated fork / spawn backends (fixed '
                               'schedules); plus every manager proxy call (request sent, reply unread)'}

    def run_case(self, case, workdir, tier):
        s2 = case.get('backend') in ('fork', 'spawn')
        sc = s2_scenario(case['workload'], case['backend']) if s2 else s0_scenario(case['workload'])
        sc['interrupts'] = case['interrupts']
        if case.get('monitor'):
            sc['progress'] = True
        if s2 and len(case['interrupts']) >= 2:
            sc['starve_after'] = 2
        d = tempfile.mkdtemp(dir=workdir)
        try:
            out = execute(sc, Choices(seed=f'c14s2:{case["sched"]}') if s2 else Choices(seed='c14'), d)
            fired = out.fault_counts.get('sigint', 0)
            if not fired:
                raise RuntimeError(f'interrupt instant {case["interrupts"][0]} was not reached')
            if s2:
                vs = check_process_interrupt(sc, out, O.Facts(sc, out), d)
            else:
                vs = check_serial_interrupt(sc, out, d, len(case['interrupts']))
            at = [e for e in out.events if e[0] == 'sigint']
            for v in vs:
                v['detail'] += f' [interrupt(s) at main-thread {[(i["mode"], i["k"]) for i in case["interrupts"]]}; {fired} delivered]'
        finally:
            shutil.rmtree(d, ignore_errors=True)
        r = result_record(self.id, sc, out, vs, None)
        r['nontrivial'] = True
        r['spec_digest'] = O.digest_of_case(case)
        r['sample'] = {'case': case, 'outcome': r['outcome'], 'faults': r['faults']}
        if fired >= 2:
            r['probes']['second-interrupt'] = 1
        if out.fault_counts.get('sigint-inside-proxy-call'):
            r['probes']['sigint-inside-proxy-call'] = 1
        if any(e[0] == 'rpc-stale-reply' for e in out.events):
            r['probes']['stale-proxy-reply-read'] = 1
        return r

    # -- S2 sampled
    def gen(self, ch, tier):
        sc = gen_scenario(ch, backends=[('fork', 3), ('spawn', 2)], cache='sometimes', cof=(True, False), max_nodes=7, fail=1)
        ft = ch.stream('fault')
        sc['observe_after'] = False
        n_int = 1 + ft.weighted([3, 3])
        specs = []
        for j in range(n_int):
            w = ft.weighted([6, 3, 3])
            if w == 0:
                # while the main thread is blocked (almost always in the helper thread's join)
                specs.append({'mode': 'blocked', 'j': ft.draw(6) if j == 0 else ft.draw(3), 'd': ft.draw(12)})
            elif w == 1:
                specs.append({'mode': 'line', 'k': ft.draw(900) if j == 0 else ft.draw(200)})
            else:
                # inside a queue poll of the calling thread: request sent, reply not yet read
                specs.append({'mode': 'rpc', 'k': ft.draw(40) if j == 0 else ft.draw(10)})
        sc['interrupts'] = specs
        if n_int >= 2:
            sc['starve_after'] = 2
        sc['swarm']['gate_mode'] = ft.pick(['hold', 'hold', 'free'])
        if ft.chance(1, 3):
            sc['line_coord'] = True
        if ft.chance(1, 3):
            sc['progress'] = True
        return sc

    def run(self, ch, workdir, tier):
        sc = self.gen(ch, tier)
        d = tempfile.mkdtemp(dir=workdir)
        try:
            out = execute(sc, ch, d)
            facts = O.Facts(sc, out)
            vs = check_process_interrupt(sc, out, facts, d)
        finally:
            shutil.rmtree(d, ignore_errors=True)
        r = self.record(sc, out, vs, ch)
        sigs = interrupt_facts(out)
        r['nontrivial'] = bool(sigs)
        r['spec_digest'] = r['spec_digest'] + ':' + ','.join(str(i) for i, _ in sigs)
        if len(sigs) >= 2:
            r['probes']['second-interrupt'] = 1
        for k, v in out.fault_counts.items():
            if k.startswith('sigint-while-') or k == 'sigint-inside-proxy-call':
                r['probes'][k] = v
        if sigs:
            first = sigs[0][0]
            alive = set()
            for e in out.events[:first]:
                if e[0] == 'pstart':
                    alive.add(e[1])
                elif e[0] in ('kill', 'pexit'):
                    alive.discard(e[1])
            if alive:
                r['probes']['interrupt-with-workers-executing'] = 1
        return r


def _startup_interrupt(p, backend: str, d: str):
    import json
    import signal
    import subprocess
    import time
    import psutil
    open(os.path.join(d, 'release'), 'w').close()       # tasks that begin run for 0.3 s
    t0 = time.time()
    try:
        pp = psutil.Process(p.pid)
        while time.time() - t0 < 60:
            kids = pp.children(recursive=False)
            if backend == 'spawn':
                workers = 0
                for c in kids:
                    try:
                        if 'spawn_main' in ' '.join(c.cmdline()):
                            workers += 1
                    except psutil.Error:
                        pass
            else:
                workers = len(kids) - 3          # three manager server processes come first
            if workers >= 1:
                break
            time.sleep(0.0005)
        os.killpg(p.pid, signal.SIGINT)
    except (psutil.Error, ProcessLookupError):
        pass
    try:
        out, _ = p.communicate(timeout=90)
    except subprocess.TimeoutExpired:
        try:
            os.killpg(p.pid, signal.SIGKILL)
        except ProcessLookupError:
            pass
        return None
    line = [x for x in out.splitlines() if x.startswith('SIGPROBE ')]
    if not line:
        return None
    info = json.loads(line[0][9:])
    time.sleep(0.2)
    began = [i for i in range(3) if os.path.exists(os.path.join(d, f'started{i}'))]
    done = [i for i in range(3) if os.path.exists(os.path.join(d, f'done{i}'))]
    return info, began, done


def _c14_batch_extra(self, tier):
    """S3: real SIGINT delivery (killpg) - single and double - at a controlled resting point of a real
    run: every worker is parked inside run() (marker files), so nothing depends on timing except the
    generous watchdogs."""
    import json
    import signal
    import subprocess
    import sys
    import time
    from . import REPO_DIR, VERIF_DIR
    from .driver import scratch_root
    vs = []
    samples = []
    n = 0
    for backend in ('fork', 'spawn'):
        for mode in ('single', 'double', 'startup', 'startup'):
            d = tempfile.mkdtemp(prefix='simlab-c14real-', dir=scratch_root())
            try:
                env = dict(os.environ)
                env['PYTHONPATH'] = REPO_DIR
                p = subprocess.Popen([sys.executable, os.path.join(VERIF_DIR, 'simlab', 'realsigint.py'), backend, d],
                                     stdout=subprocess.PIPE, stderr=subprocess.DEVNULL, text=True, env=env, start_new_session=True)
                t0 = time.time()
                if mode == 'startup':
                    # a single SIGINT while the first task process(es) are being started (the instant the first
                    # worker process exists); whatever the exact instant, the outcome must be KeyboardInterrupt
                    # with every task that began finished and cached
                    res = _startup_interrupt(p, backend, d)
                    if res is None:
                        vs.append(O.V('C14', 'real-probe-failed', f'real {backend} start-up run gave no result', backend=backend, mode=mode))
                        continue
                    n += 1
                    info, began, done = res
                    samples.append({'real_interrupt': mode, 'backend': backend, 'outcome': info['outcome'], 'tasks_begun': began,
                                    'tasks_finished': done, 'is_cached': info['is_cached']})
                    if info['outcome'] != 'KeyboardInterrupt':
                        vs.append(O.V('C14', 'real-wrong-outcome', f'real {backend} run, SIGINT while task processes were being started: '
                                      f'run_tasks ended with {info["outcome"]}', backend=backend, mode=mode))
                    elif sorted(began) != sorted(done) or not all(info['is_cached'][i] for i in began):
                        vs.append(O.V('C14', 'real-not-drained', f'real {backend} run, SIGINT while task processes were being started: tasks '
                                      f'{began} began, {done} finished, is_cached={info["is_cached"]}', backend=backend, mode=mode))
                    continue
                while time.time() - t0 < 60 and not all(os.path.exists(os.path.join(d, f'started{i}')) for i in range(3)):
                    time.sleep(0.01)
                if time.time() - t0 >= 60:
                    p.kill()
                    vs.append(O.V('C14', 'real-probe-timeout', f'real {backend} run never reached the resting point', backend=backend))
                    continue
                os.killpg(p.pid, signal.SIGINT)
                t_int = time.time()
                if mode == 'double':
                    time.sleep(0.4)
                    os.killpg(p.pid, signal.SIGINT)
                else:
                    time.sleep(0.3)
                    open(os.path.join(d, 'fail2'), 'w').close()       # task 2 will fail once it has done its work
                    open(os.path.join(d, 'release'), 'w').close()
                try:
                    out, _ = p.communicate(timeout=90)
                except subprocess.TimeoutExpired:
                    try:
                        os.killpg(p.pid, signal.SIGKILL)
                    except ProcessLookupError:
                        pass
                    vs.append(O.V('C14', 'real-no-termination', f'real {backend} run did not end within 90 s of a {mode} interrupt', backend=backend, mode=mode))
                    continue
                took = time.time() - t_int
                line = [x for x in out.splitlines() if x.startswith('SIGPROBE ')]
                if not line:
                    vs.append(O.V('C14', 'real-probe-failed', f'real {backend} {mode} run gave no result', backend=backend, mode=mode))
                    continue
                n += 1
                info = json.loads(line[0][9:])
                done = sum(1 for i in range(3) if os.path.exists(os.path.join(d, f'done{i}')))
                samples.append({'real_interrupt': mode, 'backend': backend, 'outcome': info['outcome'], 'tasks_finished': done,
                                'is_cached': info['is_cached'], 'seconds_after_interrupt': round(took, 2)})
                if info['outcome'] != 'KeyboardInterrupt':
                    vs.append(O.V('C14', 'real-wrong-outcome', f'real {backend} run, {mode} SIGINT with all workers inside run(): run_tasks '
                                  f'ended with {info["outcome"]}', backend=backend, mode=mode))
                if mode == 'single':
                    if done != 3 or list(info['is_cached']) != [True, True, False]:      # (task 2 fails after finishing its work)
                        vs.append(O.V('C14', 'real-not-drained', f'real {backend} run, single SIGINT: {done}/3 executing tasks finished, '
                                      f'is_cached={info["is_cached"]}', backend=backend))
                else:
                    time.sleep(0.5)
                    done_later = sum(1 for i in range(3) if os.path.exists(os.path.join(d, f'done{i}')))
                    if done_later:
                        vs.append(O.V('C14', 'real-not-terminated', f'real {backend} run, double SIGINT: {done_later}/3 tasks still finished '
                                      f'(they should have been terminated at once)', backend=backend))
                    if took > 20:
                        vs.append(O.V('C14', 'real-slow-stop', f'real {backend} run, double SIGINT: run_tasks needed {took:.1f} s', backend=backend))
            finally:
                shutil.rmtree(d, ignore_errors=True)
    return vs, {'real_interrupt_runs': n, 'real_interrupt_samples': samples}


C14.batch_extra = _c14_batch_extra
