"""Oracles: pure functions over (specification, recorded outcome).

All oracles are phrased on public behaviour - return values, exceptions,
is_cached, execution records written by run() bodies, calls across the Runner /
Storage / process seams - never on private attribute names of labtech.

A violation is a dict: prop, code (oracle code), detail (human), sig
(discriminating facts used to match known findings).
"""
from __future__ import annotations

import gc
import weakref
from typing import Any, Optional

from .spec import Ref, base_context
from .tasklib import TYPE_INFO, Value, same_value


def V(prop: str, code: str, detail: str, **sig) -> dict:
    return {'prop': prop, 'code': code, 'detail': detail[:600], 'sig': sig}


class Facts:
    """Indexes over the event log."""

    def __init__(self, sc: dict, out):
        self.sc = sc
        self.out = out
        self.ref = Ref(sc)
        ev = out.events
        self.ev = ev
        self.begins: dict[int, list[int]] = {}
        self.ends: dict[int, list[tuple[int, str]]] = {}
        self.reads: dict[int, list[tuple[int, int, str]]] = {}
        self.readfails: dict[int, list[tuple[int, int, str]]] = {}
        self.completes: list[tuple[int, int, str]] = []
        self.submits: list[tuple[int, int, bool]] = []
        self.stops: dict[int, int] = {}        # node -> index where its run() stopped unsuccessfully
        self.read_opens: dict[str, list[int]] = {}
        self.begin_who: dict[int, list[str]] = {}
        self.begin_ctx: dict[int, list[tuple]] = {}
        self.left_idx: Optional[int] = None
        key_node = {k: n for n, k in out.keys.items()}
        self.key_node = key_node
        ent_node: dict[str, int] = {}
        for i, e in enumerate(ev):
            k = e[0]
            if k == 'begin':
                self.begins.setdefault(e[1], []).append(i)
                self.begin_who.setdefault(e[1], []).append(e[2])
                self.begin_ctx.setdefault(e[1], []).append(e[3])
                ent_node[e[2]] = e[1]
            elif k == 'end':
                self.ends.setdefault(e[1], []).append((i, e[2]))
            elif k == 'read':
                self.reads.setdefault(e[1], []).append((i, e[2], e[3]))
            elif k == 'readfail':
                self.readfails.setdefault(e[1], []).append((i, e[2], e[3]))
                self.stops.setdefault(e[1], i)
            elif k == 'complete':
                self.completes.append((i, e[1], e[2]))
            elif k == 'submit':
                self.submits.append((i, e[1], e[2]))
            elif k == 'fault' and e[1] in ('raise', 'die'):
                self.stops.setdefault(e[2], i)
            elif k == 'fault' and e[1] == 'load-io':
                # a cached result whose load got a read error: the task fails without executing (a failed
                # finish, like a run() that raised); its dependents may be started and cannot read it
                if e[2] in key_node:
                    self.stops.setdefault(key_node[e[2]], i)
            elif k == 'kill':
                if e[4] is not None and e[3] in ('run', 'save', 'pre', 'boot'):
                    self.stops.setdefault(e[4], i)
            elif k == 'st' and e[1] == 'open' and e[4] is not None and 'r' in e[4]:
                self.read_opens.setdefault(e[2], []).append(i)
            elif k == 'run_tasks-left':
                self.left_idx = i
        self.executed = sorted(self.begins)
        # a load = the coordinator handing the task to the runner with use_cache=True
        # (public Runner seam); is_cached probes may read storage too and do not count
        self.load_submits: dict[int, int] = {}
        for _i, n, uc in self.submits:
            if uc:
                self.load_submits[n] = self.load_submits.get(n, 0) + 1
        self.loaded = sorted(self.load_submits)

    def load_count(self, node: int) -> int:
        return self.load_submits.get(node, 0)

    def submit_count(self, node: int) -> int:
        return sum(1 for _i, n, _uc in self.submits if n == node)

    def last_load_idx(self, node: int) -> Optional[int]:
        key = self.out.keys.get(node)
        last = None
        for i, e in enumerate(self.ev):
            if e[0] in ('st', 'f') and e[2] == key:
                if e[0] == 'st' and e[1] == 'open' and e[4] and 'r' in e[4]:
                    last = i
                elif e[0] == 'f' and e[1] == 'read':
                    last = i
        return last

    def complete_idx(self, node: int) -> Optional[int]:
        for i, n, _s in self.completes:
            if n == node:
                return i
        return None


# ---------------------------------------------------------------- expectations

def main_context(sc: dict) -> dict:
    return dict(sc.get('context') or base_context(sc.get('gen_main', 1)))


def pre_context(sc: dict) -> dict:
    return base_context(sc.get('gen_pre', 0))


def expected_plan(sc: dict, ref: Ref):
    cached = {i for i in sc.get('cached', []) if ref.cacheable(i)}
    if sc.get('storage') == 'none':
        cached = set()
    return ref.plan(cached, bool(sc.get('bust_cache')))


def expected_values(sc: dict, ref: Ref, load_set) -> dict[int, Value]:
    pre = ref.evaluate(pre_context(sc)) if load_set else {}
    loaded = {i: pre[i] for i in load_set}
    roots = ref.closure(ref.requested_ids())
    return ref.evaluate(main_context(sc), loaded=loaded, roots=roots)


def intrinsic_failures(sc: dict, out=None) -> set[int]:
    """Nodes that fail by themselves.  Planned 'raise' faults fire whenever the
    node executes; deaths are taken from what actually fired (a kill before the
    result was queued), not from the plan."""
    fails = {int(k) for k, v in (sc.get('fail') or {}).items() if v in ('raise', 'sysexit', 'raise-chained')}
    if out is None:
        fails |= {int(k) for k, v in (sc.get('fail') or {}).items() if v == 'die'}
        return fails
    for e in out.events:
        if e[0] == 'kill' and e[4] is not None and e[3] in ('boot', 'pre', 'run', 'save'):
            fails.add(e[4])
        elif e[0] == 'fault' and e[1] == 'die':
            fails.add(e[2])
        elif e[0] == 'pexc':
            pass
    return fails


# ---------------------------------------------------------------- C01

def check_C01(sc: dict, out, facts: Optional[Facts] = None) -> list[dict]:
    ref = (facts.ref if facts else Ref(sc))
    vs = []
    if out.kind != 'return':
        what = out.exc['type'] if out.exc else out.abort
        return [V('C01', 'no-return', f'all tasks succeed but run_tasks did not return: {out.kind} {what} '
                  f'{(out.exc or {}).get("msg", out.abort_detail)}', outcome=out.kind, exc=what)]
    want_keys = ref.requested_ids()
    got_keys = [n for n, _ in out.returned]
    if got_keys != want_keys:
        vs.append(V('C01', 'keys', f'returned keys {got_keys} != requested (dedup, request order) {want_keys}'))
    execute, load = expected_plan(sc, ref)
    exp = expected_values(sc, ref, load)
    for n, v in out.returned:
        if n in exp and not same_value(v, exp[n]):
            vs.append(V('C01', 'value', f'node {n}: returned {v!r} != reference {exp[n]!r}', node_type=ref.tname(n)))
            break
    return vs


# ---------------------------------------------------------------- C02

def check_C02(sc: dict, out, facts: Facts) -> list[dict]:
    ref = facts.ref
    vs = []
    # actual result digest of every node in this run
    actual: dict[int, str] = {}
    for n, lst in facts.ends.items():
        actual[n] = lst[0][1]
    pre = None
    for n in facts.loaded:
        if n not in actual:
            if pre is None:
                pre = ref.evaluate(pre_context(sc))
            actual[n] = pre[n].digest
    for t in facts.executed:
        b = facts.begins[t][0]
        for d in ref.direct[t]:
            # when did d finish?
            fin = None
            if d in facts.ends:
                fin = facts.ends[d][0][0]
            elif d in facts.stops:
                fin = facts.stops[d]
            elif d in facts.loaded:
                fin = facts.last_load_idx(d)
            else:
                ci = facts.complete_idx(d)
                if ci is not None:
                    fin = ci
            if fin is None:
                vs.append(V('C02', 'dep-never-finished', f'node {t} began at #{b} but dependency {d} never executed or loaded'))
                continue
            if not fin < b:
                vs.append(V('C02', 'started-early', f'node {t} began at event #{b}, dependency {d} finished at #{fin}',
                            backend=sc['backend']))
        failed_deps = set(facts.stops)
        for (i, d, dg) in facts.reads.get(t, []):
            if d in failed_deps and d not in facts.ends:
                vs.append(V('C02', 'read-of-failed', f'node {t} read a value for failed dependency {d}: {dg}'))
            elif d in actual and dg != actual[d]:
                vs.append(V('C02', 'wrong-value', f'node {t} read {dg} for dependency {d}, whose real result is {actual[d]}'))
        for (i, d, ex) in facts.readfails.get(t, []):
            if d in actual and d not in facts.stops:
                vs.append(V('C02', 'read-raised', f'node {t} could not read the result of finished dependency {d}: {ex}',
                            exc=ex))
    return vs


# ---------------------------------------------------------------- C03

def check_C03(sc: dict, out, facts: Facts, strict_plan: bool = True) -> list[dict]:
    ref = facts.ref
    vs = []
    for n, b in facts.begins.items():
        if len(b) > 1:
            vs.append(V('C03', 'executed-twice', f'node {n} ({ref.tname(n)}) began {len(b)} times'))
    for n in facts.loaded:
        c = facts.load_count(n)
        if c > 1:
            vs.append(V('C03', 'loaded-twice', f'node {n} was loaded {c} times'))
        if n in facts.begins:
            vs.append(V('C03', 'executed-and-loaded', f'node {n} was both executed and loaded'))
    for n in ref.nodes:
        if facts.submit_count(n) > 1:
            vs.append(V('C03', 'submitted-twice', f'node {n} was handed to the runner {facts.submit_count(n)} times'))
    execute, load = expected_plan(sc, ref)
    if strict_plan:
        if facts.executed != execute:
            extra = sorted(set(facts.executed) - set(execute))
            missing = sorted(set(execute) - set(facts.executed))
            vs.append(V('C03', 'execute-set', f'executed {facts.executed}, plan says {execute} (extra {extra}, missing {missing}); '
                        f'cached={sorted(sc.get("cached", []))} bust={bool(sc.get("bust_cache"))}',
                        extra=bool(extra), missing=bool(missing)))
        if facts.loaded != load:
            vs.append(V('C03', 'load-set', f'loaded {facts.loaded}, plan says {load}',
                        extra=bool(set(facts.loaded) - set(load)), missing=bool(set(load) - set(facts.loaded))))
    else:
        extra = sorted(set(facts.executed) - set(execute))
        if extra:
            vs.append(V('C03', 'execute-set', f'executed {extra} outside the plan {execute}', extra=True, missing=False))
        extra = sorted(set(facts.loaded) - set(load))
        if extra:
            vs.append(V('C03', 'load-set', f'loaded {extra} outside the plan {load}', extra=True, missing=False))
    # every instance among the requested tasks and the parameters of executed tasks is marked
    if out.kind == 'return':
        done_nodes = {n for (_i, n, s) in facts.completes if s == 'ok'}
        meta_of: dict[int, Any] = {}
        for n, lst in out.metas.items():
            for serial, m in lst:
                meta_of[serial] = m
        seen = set()
        stack = list(out.requested_serials)
        node_meta: dict[int, Any] = {}
        while stack:
            s = stack.pop()
            if s in seen:
                continue
            seen.add(s)
            n = out.instance_node[s]
            m = meta_of.get(s)
            if n in done_nodes:
                if m is None:
                    vs.append(V('C03', 'instance-unmarked', f'an instance of node {n} ({ref.tname(n)}) reachable from the request '
                                f'has no result_meta after the run', dup_in_parent=_dup_in_parent(out, s)))
                elif n in node_meta and node_meta[n] != m:
                    vs.append(V('C03', 'instance-meta-differs', f'instances of node {n} carry different result_meta'))
                else:
                    node_meta.setdefault(n, m)
            if n in facts.begins:
                stack += out.instance_children.get(s, [])
        # ... with the outcome of *its own* task: executed tasks have start times of their own (the clocks of
        # every substrate see to that), and a task that failed in this call is not stamped by another's success
        if not vs and not sc.get('coarse_clock') and not sc.get('real_clock') and not sc.get('earlier_call'):
            executed_ok = {n for n in done_nodes if n in facts.ends}
            by_start: dict = {}
            for n, m in node_meta.items():
                if n in executed_ok and m is not None:
                    by_start.setdefault(m[0], set()).add(n)
            shared = [sorted(ns) for ns in by_start.values() if len(ns) > 1]
            if shared:
                vs.append(V('C03', 'marked-with-another-tasks-meta', f'instances of the different executed nodes {shared[0]} carry the same '
                            f'result_meta start time {[k for k, v in by_start.items() if len(v) > 1][0]}'))
            failed_nodes = {n for (_i, n, st) in facts.completes if st != 'ok'}
            for s2 in sorted(seen):
                n = out.instance_node[s2]
                if n in failed_nodes and n not in done_nodes and meta_of.get(s2) is not None:
                    vs.append(V('C03', 'failed-task-marked', f'node {n} ({ref.tname(n)}) failed in this call, yet an instance of it carries '
                                f'result_meta {meta_of.get(s2)}'))
                    break
    return vs


def _dup_in_parent(out, serial: int) -> bool:
    """Is this instance a second, equal-but-distinct occurrence inside one parent?"""
    n = out.instance_node[serial]
    for p, kids in out.instance_children.items():
        if serial in kids:
            same = [k for k in kids if out.instance_node[k] == n]
            if len(set(same)) > 1:
                return True
    return False


# ---------------------------------------------------------------- C04 / C05

def _limit(sc):
    mw = sc.get('max_workers')
    return mw if mw is not None else sc.get('cpu_count', 2)


def check_C04(sc: dict, out, facts: Facts) -> list[dict]:
    ref = facts.ref
    vs = []
    backend = sc['backend']
    limit = _limit(sc)
    if backend == 'serial':
        active = 0
        for e in out.events:
            if e[0] == 'begin':
                active += 1
                if active > 1:
                    vs.append(V('C04', 'serial-overlap', 'two run() bodies active at once under the serial backend'))
                if e[2] != 'main':
                    vs.append(V('C04', 'serial-thread', f'serial backend executed run() on {e[2]}'))
            elif e[0] == 'end' or (e[0] == 'fault' and e[1] == 'raise') or e[0] == 'readfail':
                active = max(0, active - 1)
        return vs
    if backend == 'sim':
        inflight: dict[int, bool] = {}
        for e in out.events:
            if e[0] == 'submit':
                inflight[e[1]] = True
                per: dict[str, int] = {}
                for n in inflight:
                    per[ref.tname(n)] = per.get(ref.tname(n), 0) + 1
                for t, c in per.items():
                    mp = TYPE_INFO[t][0]
                    if mp is not None and c > mp:
                        vs.append(V('C04', 'type-limit', f'{c} tasks of type {t} in flight at a submit, max_parallel={mp}',
                                    type=t, over=c - mp))
                        return vs
            elif e[0] == 'complete':
                inflight.pop(e[1], None)
        return vs
    # process backends: true liveness
    in_run: dict[str, int] = {}       # entity -> node inside run()
    procs: dict[str, bool] = {}       # entity -> executing (started, result not queued, not dead)
    for idx, e in enumerate(out.events):
        k = e[0]
        if k == 'pstart':
            procs[e[1]] = True
            if len(procs) > limit:
                vs.append(V('C04', 'worker-limit', f'{len(procs)} task processes executing at event #{idx}, max_workers={limit}',
                            over=len(procs) - limit))
                return vs
        elif k == 'begin':
            in_run[e[2]] = e[1]
            per = {}
            for n in in_run.values():
                per[ref.tname(n)] = per.get(ref.tname(n), 0) + 1
            for t, c in per.items():
                mp = TYPE_INFO[t][0]
                if mp is not None and c > mp:
                    vs.append(V('C04', 'type-limit', f'{c} tasks of type {t} inside run() at event #{idx}, max_parallel={mp}',
                                type=t, over=c - mp))
                    return vs
        elif k == 'end':
            in_run.pop(e[3], None)
        elif k == 'readfail':
            in_run.pop(e[4], None)
        elif k == 'fault' and e[1] == 'raise':
            for ent, n in list(in_run.items()):
                if n == e[2]:
                    in_run.pop(ent)
        elif k == 'qput' and e[3] in ('result', 'exc'):
            procs.pop(e[2], None)
            in_run.pop(e[2], None)
        elif k == 'kill':
            procs.pop(e[1], None)
            in_run.pop(e[1], None)
        elif k == 'pexit':
            procs.pop(e[1], None)
            in_run.pop(e[1], None)
    return vs


def _ready_model(sc, ref: Ref, execute, load, completed: set[int]):
    """Per type: unfinished plan nodes whose dependencies (for executed nodes)
    have all finished."""
    per: dict[str, int] = {}
    nodes = []
    for n in execute:
        if n in completed:
            continue
        if all(d in completed for d in ref.direct[n]):
            per[ref.tname(n)] = per.get(ref.tname(n), 0) + 1
            nodes.append(n)
    for n in load:
        if n in completed:
            continue
        per[ref.tname(n)] = per.get(ref.tname(n), 0) + 1
        nodes.append(n)
    return per, nodes


def check_C05(sc: dict, out, facts: Facts) -> list[dict]:
    ref = facts.ref
    vs = []
    backend = sc['backend']
    execute, load = expected_plan(sc, ref)
    limit = 1 if backend == 'serial' else _limit(sc)
    completed: set[int] = set()
    rest_points = 0
    if backend == 'sim':
        submitted: set[int] = set()
        for idx, e in enumerate(out.events):
            if e[0] == 'submit':
                submitted.add(e[1])
            elif e[0] == 'complete':
                completed.add(e[1])
            elif e[0] == 'wait':
                running, queued = e[1], e[2]
                per, ready = _ready_model(sc, ref, execute, load, completed)
                per_cap, total = ref.capacity(per, limit)
                inflight_per: dict[str, int] = {}
                for n in submitted - completed:
                    inflight_per[ref.tname(n)] = inflight_per.get(ref.tname(n), 0) + 1
                rest_points += 1
                for t, c in per_cap.items():
                    if inflight_per.get(t, 0) < c:
                        vs.append(V('C05', 'not-submitted', f'at wait #{idx}: type {t} has {per[t]} runnable task(s), limit allows {c}, '
                                    f'but only {inflight_per.get(t, 0)} are submitted', type=t))
                        return vs
                if len(running) != min(limit, len(submitted - completed)):
                    vs.append(V('C05', 'runner-idle', f'at wait #{idx}: {len(running)} running, capacity {total}'))
                    return vs
        out.rest_points = rest_points
        return vs
    if backend == 'serial':
        # at rest = every wait-enter: something must be submitted if anything is runnable
        submitted = set()
        for idx, e in enumerate(out.events):
            if e[0] == 'submit':
                submitted.add(e[1])
            elif e[0] == 'complete':
                completed.add(e[1])
            elif e[0] == 'wait-enter':
                per, ready = _ready_model(sc, ref, execute, load, completed)
                rest_points += 1
                if ready and not (submitted - completed):
                    vs.append(V('C05', 'serial-idle', f'at wait #{idx}: runnable {ready} but nothing submitted'))
                    return vs
        out.rest_points = rest_points
        return vs
    # process backends: resting points of the simulation
    procs: dict[str, str] = {}     # entity -> phase: pre | run | other
    quiet = 0
    clock_now = 0.0                # virtual time only advances at 'timeout' events
    progress_clock = 0.0
    for idx, e in enumerate(out.events):
        k = e[0]
        if k == 'clock':
            clock_now = progress_clock = float(e[1])
        if k in ('pstart', 'begin', 'end', 'qput', 'kill', 'pexit', 'complete'):
            progress_clock = clock_now
        if k == 'pstart':
            procs[e[1]] = 'pre'
            quiet = 0
        elif k == 'begin':
            if e[2] in procs:
                procs[e[2]] = 'run'
            quiet = 0
        elif k == 'end':
            if e[3] in procs:
                procs[e[3]] = 'post'
            quiet = 0
        elif k == 'qput' and e[3] in ('result', 'exc'):
            procs.pop(e[2], None)
            quiet = 0
        elif k in ('kill', 'pexit'):
            procs.pop(e[1], None)
            quiet = 0
        elif k == 'complete':
            completed.add(e[1])
            quiet = 0
        elif k == 'run_tasks-left':
            break
        elif k == 'sigint':
            break
        elif k == 'timeout':
            if not str(e[1]).startswith('w'):
                quiet += 1          # a poll of the coordinator (not a timer inside a task process, e.g. its lingering)
            if len(e) > 2 and isinstance(e[2], (int, float)):
                clock_now = max(clock_now, float(e[2]))
            # at rest: three polls of the coordinator without any change - or the same 1.5 virtual seconds
            # passing without a change while the coordinator was not even polling
            if (quiet >= 3 or clock_now - progress_clock >= 1.5) and all(p == 'run' for p in procs.values()):
                per, ready = _ready_model(sc, ref, execute, load, completed)
                per_cap, total = ref.capacity(per, limit)
                rest_points += 1
                if len(procs) != total:
                    running_nodes = sorted(n for n, b in facts.begins.items() if facts.begin_who[n][0] in procs)
                    vs.append(V('C05', 'under-used', f'at rest (event #{idx}, {quiet} quiet polls): {len(procs)} task(s) executing '
                                f'{running_nodes}, capacity model says {total} (runnable per type {per}, max_workers {limit})',
                                executing=len(procs), capacity=total))
                    return vs
    out.rest_points = rest_points
    return vs


# ---------------------------------------------------------------- C10

def check_C10(sc: dict, out, facts: Facts) -> list[dict]:
    ref = facts.ref
    vs = []
    execute, load = expected_plan(sc, ref)
    planned_raise = {int(k) for k, v in (sc.get('fail') or {}).items() if v in ('raise', 'sysexit', 'raise-chained')}
    intrinsic = (intrinsic_failures(sc, out) - planned_raise) & (set(execute) | set(load))
    intrinsic |= planned_raise & set(execute)
    failed = ref.failing(execute, intrinsic)
    cof = sc.get('cof', True)
    if out.kind == 'abort':
        return [V('C10', 'no-termination', f'run_tasks did not finish: {out.abort} {out.abort_detail}', abort=out.abort)]
    if cof:
        if out.kind != 'return':
            t = out.exc['type']
            req_failed = sorted(set(ref.requested_ids()) & failed)
            return [V('C10', 'raised-despite-continue', f'continue_on_failure=True but run_tasks raised {t}: {out.exc["msg"][:120]}; '
                      f'failed={sorted(failed)} requested-and-failed={req_failed}',
                      exc=t, requested_failed=bool(req_failed), backend_kind=('spawn' if sc['backend'] == 'spawn' else 'any'))]
        want = [n for n in ref.requested_ids() if n not in failed]
        got = [n for n, _ in out.returned]
        if got != want:
            vs.append(V('C10', 'returned-set', f'returned {got}, expected the requested tasks that did not fail {want} (failed {sorted(failed)})',
                        has_failed=bool(set(got) & failed)))
        exp = expected_values_with_failures(sc, ref, execute, load, failed)
        for n, v in out.returned:
            if n in exp and not same_value(v, exp[n]):
                vs.append(V('C10', 'value', f'node {n} returned {v!r}, reference {exp[n]!r}'))
                break
        must_run = set(execute) - failed
        not_run = sorted(n for n in must_run if n not in facts.ends)
        if not_run:
            vs.append(V('C10', 'independent-not-executed', f'tasks {not_run} do not depend on a failed task but did not complete; failed={sorted(failed)}'))
        if out.cached_after:
            for n in sorted(must_run):
                if ref.cacheable(n) and sc.get('storage') != 'none' and out.cached_after.get(n) is not True:
                    vs.append(V('C10', 'independent-not-cached', f'node {n} succeeded but is not cached afterwards'))
                    break
            for n in sorted(failed):
                if out.cached_after.get(n) is True and n not in set(sc.get('cached', [])):
                    vs.append(V('C10', 'failed-cached', f'failed node {n} is reported cached afterwards',
                                how=(sc.get('fail') or {}).get(str(n))))
                    break
    else:
        if not failed:
            return check_C01(sc, out, facts)
        observed_fail = [(i, n, s) for (i, n, s) in facts.completes if s != 'ok']
        if out.kind == 'return':
            if observed_fail:
                vs.append(V('C10', 'returned-despite-failure', f'continue_on_failure=False, task {observed_fail[0][1]} failed, but run_tasks returned'))
            return vs
        if out.exc['type'] != 'LabError':
            vs.append(V('C10', 'wrong-exception', f'run_tasks raised {out.exc["type"]} ({out.exc["msg"][:100]}), expected LabError', exc=out.exc['type']))
        else:
            first = observed_fail[0] if observed_fail else None
            cause = out.exc.get('cause')
            if first is None:
                vs.append(V('C10', 'labError-without-failure', f'LabError raised but no failed completion was handed over: {out.exc["msg"][:100]}'))
            else:
                want_cause = first[2]
                if cause != want_cause:
                    vs.append(V('C10', 'wrong-cause', f'LabError cause is {cause}, first failure observed was {want_cause} of node {first[1]}'))
                elif cause == 'PlannedFailure' and out.exc.get('cause_ident') != first[1]:
                    vs.append(V('C10', 'wrong-cause', f'LabError caused by node {out.exc.get("cause_ident")}, first failure observed was node {first[1]}'))
        if facts.left_idx is not None:
            for idx in range(facts.left_idx + 1, len(out.events)):
                e = out.events[idx]
                if e[0] in ('pstart', 'submit', 'start'):
                    vs.append(V('C10', 'started-after-raise', f'{e[0]} {e[1]} happened after run_tasks had raised'))
                    break
                if e[0] == 'begin' and not _began_in_started_process(out.events, facts.left_idx, e[2]):
                    vs.append(V('C10', 'started-after-raise', f'node {e[1]} began after run_tasks had raised'))
                    break
    return vs


def _began_in_started_process(events, left_idx, who) -> bool:
    for e in events[:left_idx]:
        if e[0] == 'pstart' and e[1] == who:
            return True
    return False


def expected_values_with_failures(sc, ref, execute, load, failed):
    pre = ref.evaluate(pre_context(sc)) if load else {}
    loaded = {i: pre[i] for i in load}
    roots = [n for n in ref.closure(ref.requested_ids()) if n not in failed and (n in execute or n in load)]
    out: dict[int, Value] = {}
    ctx = main_context(sc)

    def ev(i):
        if i in out:
            return out[i]
        if i in loaded:
            out[i] = loaded[i]
            return out[i]
        dd = [ev(d).digest for d in ref.occ[i]]
        out[i] = ref.value_of(i, ctx, dd)
        return out[i]

    for r in roots:
        ev(r)
    return out


# ---------------------------------------------------------------- C11

def check_C11(sc: dict, out, facts: Facts) -> list[dict]:
    vs = []
    if out.kind == 'abort':
        return [V('C11', 'no-termination', f'{out.abort}: {out.abort_detail[:300]}', abort=out.abort,
                  backend=sc['backend'])]
    if sc['backend'] in ('fork', 'spawn') and facts.left_idx is not None:
        last = None
        for idx, e in enumerate(out.events[:facts.left_idx]):
            if e[0] in ('pexit', 'kill') or (e[0] == 'qput' and e[3] in ('result', 'exc')):
                last = idx
        if last is not None:
            polls = sum(1 for e in out.events[last:facts.left_idx] if e[0] == 'timeout')
            if polls > 10:
                vs.append(V('C11', 'slow-termination', f'{polls} polling rounds between the last worker event and run_tasks finishing'))
    if sc['backend'] == 'sim':
        waits = sum(1 for e in out.events if e[0] == 'wait')
        n = len(sc['nodes'])
        if waits > 4 * n * 4 + 8:
            vs.append(V('C11', 'too-many-waits', f'{waits} wait() calls for {n} nodes'))
    return vs


# ---------------------------------------------------------------- C17

class Holder:
    """Weak-referenceable wrapper used to see whether a local result object died."""


class RetentionObserver:
    """Called by the spy runner around every completion hand-over.  Uses only
    Runner.get_result (a pure read)."""

    def __init__(self, ref: Ref, rec, sc: dict, local_values: bool):
        self.ref = ref
        self.rec = rec
        self.sc = sc
        self.local_values = local_values
        self.finished: set[int] = set()       # nodes whose completion the coordinator has processed
        self.ok: set[int] = set()
        self.tasks: dict[int, Any] = {}
        self.weak: dict[int, Any] = {}
        self.violations: list[dict] = []
        self.spy = None               # the SpyRunner (set by it)
        self.checks = 0
        self.releases_seen = 0
        self.retained_seen = 0
        execute, load = expected_plan(sc, ref)
        self.execute = set(execute)
        self.load = set(load)
        self.plan = self.execute | self.load

    def _has(self, spy, node) -> Optional[bool]:
        t = self.tasks.get(node)
        if t is None:
            return None
        try:
            spy.inner.get_result(t)
            return True
        except KeyError:
            return False

    def dependents_in_plan(self, d: int) -> list[int]:
        # only executed nodes read their dependencies; a loaded node's parameters are not touched
        return [x for x in self.ref.dependents[d] if x in self.execute]

    def before_handover(self, spy, task, ok: bool):
        n = task.ident
        self.tasks.setdefault(n, task)
        if ok:
            self.ok.add(n)
            if self.local_values:
                try:
                    v = spy.inner.get_result(task).value
                    self.weak[n] = weakref.ref(v)
                    del v
                except Exception:
                    pass
        # (a) every successful direct dependency of the completing task is still retrievable
        if n in self.execute and ok:
            for d in self.ref.direct[n]:
                if d in self.ok:
                    self.checks += 1
                    if self._has(spy, d) is False:
                        self.violations.append(V('C17', 'released-too-early', f'result of node {d} was gone before its dependent {n} '
                                                 f'was handed to the coordinator'))

    def at_begin(self, task):
        """Serial backend only (tasks run one after the other in the caller): when a task begins, the
        completion of every task that ended before it has been handed to the coordinator, so results
        whose dependents have all ended (or failed) must be gone by now."""
        spy = self.spy
        if spy is None:
            return
        self.tasks.setdefault(task.ident, task)
        ended_ok = {e[1] for e in self.rec.events if e[0] == 'end'}
        over = ended_ok | {e[2] for e in self.rec.events if e[0] == 'fault' and e[1] == 'raise'} \
            | {e[1] for e in self.rec.events if e[0] == 'readfail'}
        requested = self._returned_nodes()
        for d in sorted(ended_ok):
            if d in requested or d == task.ident or d not in self.tasks:
                continue
            deps_of = self.dependents_in_plan(d)
            if not deps_of or any(x not in over for x in deps_of):
                continue
            self.checks += 1
            if self._has(spy, d):
                self.violations.append(V('C17', 'not-released', f'when node {task.ident} began (serial backend), the result of node {d} '
                                         f'was still held although every direct dependent {deps_of} had ended before', at_begin=True))

    def note_task(self, task):
        self.tasks.setdefault(task.ident, task)

    def after_processed(self, spy, task, ok: bool):
        """The coordinator has processed this completion and asks for the next."""
        n = task.ident
        self.finished.add(n)
        self._check_all(spy, f'after completion of {n}')

    def _check_all(self, spy, when: str):
        for d in sorted(self.ok):
            pending = [x for x in self.dependents_in_plan(d) if x not in self.finished]
            has = self._has(spy, d)
            if has is None:
                continue
            self.checks += 1
            if pending:
                self.retained_seen += 1
                if not has:
                    self.violations.append(V('C17', 'released-too-early', f'{when}: result of node {d} is gone although direct '
                                             f'dependent(s) {pending} have not finished'))
            else:
                self.releases_seen += 1
                if has:
                    self.violations.append(V('C17', 'not-released', f'{when}: result of node {d} still held although every direct '
                                             f'dependent has finished', after_failure=bool(self.finished - self.ok)))
                elif self.local_values and d in self.weak:
                    gc.collect()
                    if self.weak[d]() is not None and d not in self._returned_nodes():
                        self.violations.append(V('C17', 'object-alive', f'{when}: result object of node {d} is still alive after release'))

    def _returned_nodes(self):
        return set(self.ref.requested_ids())

    def at_return(self, spy):
        if spy is None:
            return
        for d in sorted(self.tasks):
            has = self._has(spy, d)
            self.checks += 1
            if has:
                self.violations.append(V('C17', 'held-at-return', f'after run_tasks returned the runner still holds the result of node {d}',
                                         after_failure=bool(self.finished - self.ok)))


def check_C17(sc: dict, out, facts: Facts) -> list[dict]:
    return list(getattr(out, 'retention_violations', []))


# ---------------------------------------------------------------- helpers for the enumeration checks

def digest_of_case(case) -> str:
    from .tasklib import digest_of
    return digest_of(case)


def observe_is_cached(sc: dict, storage_dir: str, node: int) -> bool:
    from .execute import observe_cache
    return observe_cache(sc, storage_dir, [node]).get(node) is True
