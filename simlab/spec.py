"""Workload specifications, the builder that turns them into labtech tasks, and
the reference models (evaluator, planner, capacity, retention) that work on the
*specification* only - never on labtech's own dependency search.

A specification is plain JSON so that it can be written into evidence samples
and replay files.

Parameter trees:
    ['ref', node_id, fresh]      a dependency task (fresh=1: an equal but distinct instance)
    ['t', [tree, ...]]           tuple
    ['l', [tree, ...]]           list (labtech normalises it to a tuple)
    ['d', [[key, tree], ...]]    dict
    ['s', kind, value]           scalar: kind in none,str,bool,int,float,enum
"""
from __future__ import annotations

from typing import Any, Optional

from .choices import Stream
from .tasklib import ENUMS, NONE, TYPE_INFO, TYPE_QUALNAME, Value, ctx_view, digest_of, get_type, make_pad


# ---------------------------------------------------------------- trees

def tree_refs(tree) -> list[int]:
    """Node ids of every task occurrence in structure order (dict items by key)."""
    k = tree[0]
    if k == 'ref':
        return [tree[1]]
    if k in ('t', 'l'):
        out = []
        for x in tree[1]:
            out += tree_refs(x)
        return out
    if k == 'd':
        out = []
        for key, x in sorted(tree[1], key=lambda kv: kv[0]):
            out += tree_refs(x)
        return out
    return []


def scalar_value(kind, value):
    if kind == 'none':
        return None
    if kind == 'enum':
        return ENUMS[value[0]][value[1]]
    if kind == 'float':
        return float(value)
    return value


def canon_scalar(kind, value):
    if kind == 'none':
        return ('none',)
    if kind == 'enum':
        return ('e', value[0], value[1])
    if kind == 'float':
        return ('float', repr(float(value)))
    return (kind, value)


class Ref:
    """Reference models over one specification."""

    def __init__(self, sc: dict):
        self.sc = sc
        self.nodes = {n['id']: n for n in sc['nodes']}
        self.occ: dict[int, list[int]] = {}       # dependency occurrences in read order
        self.direct: dict[int, list[int]] = {}    # distinct direct dependencies
        for n in sc['nodes']:
            occ = tree_refs(n['deps']) + tree_refs(n.get('opt', ['s', 'none', None]))
            self.occ[n['id']] = occ
            d = []
            for x in occ:
                if x not in d:
                    d.append(x)
            self.direct[n['id']] = d
        self.dependents: dict[int, list[int]] = {i: [] for i in self.nodes}
        for i, ds in self.direct.items():
            for d in ds:
                self.dependents[d].append(i)
        self._canon: dict[int, Any] = {}

    # -- static facts
    def tname(self, i):
        return self.nodes[i]['type']

    def max_parallel(self, i):
        return TYPE_INFO[self.tname(i)][0]

    def cacheable(self, i):
        return TYPE_INFO[self.tname(i)][1] is not None

    def requested_ids(self) -> list[int]:
        out = []
        for nid, _fresh in self.sc['requested']:
            if nid not in out:
                out.append(nid)
        return out

    def closure(self, roots) -> list[int]:
        seen = []
        stack = list(roots)
        while stack:
            x = stack.pop()
            if x in seen:
                continue
            seen.append(x)
            stack += self.direct[x]
        return sorted(seen)

    # -- canon / digests
    def canon_tree(self, tree):
        k = tree[0]
        if k == 'ref':
            return self.canon_node(tree[1])
        if k in ('t', 'l'):
            return ('t', tuple(self.canon_tree(x) for x in tree[1]))
        if k == 'd':
            return ('d', tuple(sorted((key, self.canon_tree(x)) for key, x in tree[1])))
        return canon_scalar(tree[1], tree[2])

    def canon_node(self, i):
        c = self._canon.get(i)
        if c is None:
            n = self.nodes[i]
            fields = [('ident', ('int', i)), ('tag', ('str', n['tag'])),
                      ('deps', self.canon_tree(n['deps'])),
                      ('opt', self.canon_tree(n.get('opt', ['s', 'none', None])))]
            if n['type'] == 'TP':
                fields.append(('ctxkeys', ('t', tuple(('str', k) for k in n.get('ctxkeys', [])))))
            c = ('T', TYPE_QUALNAME[n['type']], tuple(fields))
            self._canon[i] = c
        return c

    def pdigest(self, i):
        return digest_of(self.canon_node(i))

    def filtered_context(self, i, context: dict) -> dict:
        n = self.nodes[i]
        if n['type'] == 'TP':
            return {k: v for k, v in context.items() if k in n.get('ctxkeys', [])}
        if n['type'] == 'TF':
            return {'alpha': context.get('alpha'), 'depth': context.get('depth', 0) + 1}
        return dict(context)

    def value_of(self, i, context: dict, dep_digests, shape=None) -> Value:
        n = self.nodes[i]
        if n['type'] == 'TZ':
            return NONE
        q = TYPE_QUALNAME[n['type']].split('.')
        return Value(
            tname=f'{q[-2]}.{q[-1]}',
            ident=i,
            pdigest=self.pdigest(i),
            ctx=ctx_view(self.filtered_context(i, context)) if self.sc.get('embed_ctx', True) else (),
            deps=tuple(dep_digests),
            extra=(f"{n['tag']}!{i}" if n['type'] == 'TP' else None),
            pad=('self-and-dependency-task-objects',) if n['type'] == 'TR' else make_pad(shape if shape is not None else n.get('shape'), i),
        )

    # -- evaluator
    def evaluate(self, context: dict, loaded: Optional[dict[int, Value]] = None,
                 roots=None) -> dict[int, Value]:
        """Dependency-first sequential evaluation.  `loaded` maps nodes whose
        value comes from the cache to that stored value (their dependencies are
        not consulted)."""
        loaded = loaded or {}
        out: dict[int, Value] = {}

        def ev(i):
            if i in out:
                return out[i]
            if i in loaded:
                out[i] = loaded[i]
                return out[i]
            dd = [ev(d).digest for d in self.occ[i]]
            out[i] = self.value_of(i, context, dd)
            return out[i]

        for i in (roots if roots is not None else sorted(self.nodes)):
            ev(i)
        return out

    # -- planner
    def plan(self, cached: set[int], bust: bool, roots=None):
        """Which nodes must be executed, which loaded.  Untouched = the rest."""
        execute: list[int] = []
        load: list[int] = []
        stack = list(roots if roots is not None else self.requested_ids())
        seen = set()
        while stack:
            x = stack.pop()
            if x in seen:
                continue
            seen.add(x)
            if (not bust) and x in cached and self.cacheable(x):
                load.append(x)
            else:
                execute.append(x)
                stack += self.direct[x]
        return sorted(execute), sorted(load)

    def failing(self, execute, intrinsic: set[int]) -> set[int]:
        """Nodes of the execute set that fail: intrinsically or because they read
        the result of a failed direct dependency (run() bodies read every
        dependency)."""
        ex = set(execute)
        # a loaded node can only fail by itself (its loader died); it reads no dependency
        failed: set[int] = set(intrinsic) - ex
        changed = True
        while changed:
            changed = False
            for i in sorted(ex):
                if i in failed:
                    continue
                if i in intrinsic or any(d in failed for d in self.direct[i]):
                    failed.add(i)
                    changed = True
        return failed

    # -- capacity
    def capacity(self, unfinished_ready_by_type: dict[str, int], max_workers: int) -> tuple[dict[str, int], int]:
        per_type = {}
        total = 0
        for t, cnt in unfinished_ready_by_type.items():
            mp = TYPE_INFO[t][0]
            c = cnt if mp is None else min(mp, cnt)
            per_type[t] = c
            total += c
        return per_type, min(max_workers, total)


# ---------------------------------------------------------------- builder

class Built:
    """labtech task objects constructed from a specification, with the
    construction record (every instance, identity-wise)."""

    def __init__(self, sc: dict, force_shared: bool = False):
        self.sc = sc
        self.force_shared = force_shared
        self.nodes = {n['id']: n for n in sc['nodes']}
        self.shared: dict[int, Any] = {}
        self.instances: dict[int, list[Any]] = {i: [] for i in self.nodes}
        self.serial_of: dict[int, int] = {}        # id(instance) -> serial
        self.serial_node: dict[int, int] = {}      # serial -> node id
        self.children: dict[int, list[int]] = {}   # serial -> serials of direct task occurrences
        self._stack: list[int] = []
        self.requested = [self.get(nid, fresh) for nid, fresh in sc['requested']]

    def tree_value(self, tree):
        k = tree[0]
        if k == 'ref':
            return self.get(tree[1], tree[2])
        if k == 't':
            return tuple(self.tree_value(x) for x in tree[1])
        if k == 'l':
            return [self.tree_value(x) for x in tree[1]]
        if k == 'd':
            return {key: self.tree_value(x) for key, x in tree[1]}
        return scalar_value(tree[1], tree[2])

    def construct(self, i):
        n = self.nodes[i]
        cls = get_type(n['type'])
        serial = len(self.serial_node)
        self.serial_node[serial] = i
        self.children[serial] = []
        self._stack.append(serial)
        try:
            kwargs = dict(ident=i, tag=n['tag'], deps=self.tree_value(n['deps']),
                          opt=self.tree_value(n.get('opt', ['s', 'none', None])))
        finally:
            self._stack.pop()
        if n['type'] == 'TP':
            kwargs['ctxkeys'] = tuple(n.get('ctxkeys', []))
        t = cls(**kwargs)
        self.instances[i].append(t)
        self.serial_of[id(t)] = serial
        return t

    def get(self, i, fresh=0):
        if (fresh and not self.force_shared) or i not in self.shared:
            t = self.construct(i)
            if i not in self.shared:
                self.shared[i] = t
        else:
            t = self.shared[i]
        if self._stack:
            self.children[self._stack[-1]].append(self.serial_of[id(t)])
        return t

    def node_of(self, task) -> int:
        return task.ident


# ---------------------------------------------------------------- generator

SCALARS = [
    ['s', 'none', None], ['s', 'int', 7], ['s', 'str', 'z'], ['s', 'bool', True],
    ['s', 'float', 1.5], ['s', 'enum', ['Color', 'RED']], ['s', 'enum', ['Mode', 'SLOW']],
    ['s', 'int', -3], ['s', 'str', ''], ['s', 'enum', ['Level', 'HIGH']], ['s', 'enum', ['Kind', 'IRIS']],
    ['s', 'str', 'undecodable-\udcff.csv'],
]

DEFAULT_TYPES = [('TA', 4), ('TB', 3), ('TC', 3), ('TD', 2), ('TN', 2), ('TN1', 1), ('TN2', 2), ('TP', 2), ('TF', 1), ('TZ', 1), ('TW', 1)]


def wrap_refs(st: Stream, refs: list) -> list:
    """Nest a list of ref trees into a drawn parameter shape."""
    if not refs:
        return ['t', []] if st.draw(4) == 0 else ['s', 'none', None]
    shape = st.draw(6)
    items = list(refs)
    if st.chance(1, 4):
        items.insert(st.draw(len(items) + 1), list(st.pick(SCALARS)))
    if shape == 0:
        return ['t', items]
    if shape == 1:
        if len(items) == 1 and items[0][0] == 'ref':
            return items[0]
        return ['l', items]
    if shape == 2:
        return ['d', [[f'k{j}', x] for j, x in enumerate(items)]]
    if shape == 3:
        # tuple containing a dict containing a tuple
        head, tail = items[:1], items[1:]
        return ['t', head + [['d', [['x', ['t', tail]], ['a', ['s', 'int', 1]]]]]]
    if shape == 4:
        # right-nested lists
        tree = ['l', [items[-1]]]
        for x in reversed(items[:-1]):
            tree = ['l', [x, tree]]
        return tree
    # dict of lists, keys deliberately in non-sorted insertion order
    half = (len(items) + 1) // 2
    return ['d', [['zz', ['l', items[half:]]], ['aa', ['t', items[:half]]]]]


def gen_dag(st: Stream, *, max_nodes=8, types=None, max_depth=4, max_deps=3,
            dup_refs=True) -> list[dict]:
    types = types or DEFAULT_TYPES
    names = [t for t, _ in types]
    weights = [w for _, w in types]
    n = 1 + st.draw(max_nodes)
    nodes: list[dict] = []
    depth: dict[int, int] = {}
    for i in range(n):
        tname = names[st.weighted(weights)]
        cands = [j for j in range(i) if depth[j] < max_depth]
        refs = []
        if cands:
            k = st.weighted([3, 4, 3, 2][:max_deps + 1])
            for _ in range(k):
                # bias towards recent nodes so that chains (depth) appear
                if st.chance(1, 2):
                    d = cands[-1 - st.draw(min(3, len(cands)))]
                else:
                    d = st.pick(cands)
                fresh = 1 if (dup_refs and st.chance(1, 4)) else 0
                refs.append(['ref', d, fresh])
            if dup_refs and refs and st.chance(1, 8):
                # the same dependency repeated inside one parameter
                r = st.pick(refs)
                refs.append(['ref', r[1], 1 if st.chance(1, 2) else 0])
        node = {
            'id': i,
            'type': tname,
            'tag': st.pick(['a', 'b', 'tag', 'x' * 3]),
            'deps': wrap_refs(st, refs),
            'opt': list(st.pick(SCALARS)) if st.chance(1, 3) else ['s', 'none', None],
        }
        if tname == 'TP':
            node['ctxkeys'] = st.subset(['alpha', 'beta', 'gen'], 1, 2)
        nodes.append(node)
        ds = tree_refs(node['deps'])
        depth[i] = 1 + max([depth[d] for d in ds], default=0)
    return nodes


def gen_requested(st: Stream, nodes: list[dict], *, dups=True) -> list[list[int]]:
    has_dependent = set()
    for n in nodes:
        for d in tree_refs(n['deps']):
            has_dependent.add(d)
    req = []
    for n in nodes:
        i = n['id']
        if i not in has_dependent:
            if not st.chance(1, 4):
                req.append([i, 0])
        elif st.chance(1, 5):
            req.append([i, 1 if st.chance(1, 3) else 0])
    if not req:
        req.append([nodes[-1]['id'], 0])
    if dups and st.chance(1, 5):
        r = st.pick(req)
        req.append([r[0], 1 if st.chance(1, 2) else 0])
    return st.shuffle(req)


def base_context(gen: int) -> dict:
    return {'alpha': 'A', 'beta': 2, 'gen': gen}
