"""setup and self-tests."""
from __future__ import annotations

import compileall
import os
import subprocess
import sys

from . import VERIF_DIR


def setup() -> int:
    ok = compileall.compile_dir(os.path.join(VERIF_DIR, 'simlab'), quiet=1, force=False)
    # 5-second smoke batch: one tiny batch through the whole pipeline
    env = dict(os.environ)
    env['VERIF_RUNS'] = '48'
    env['VERIF_SMOKE'] = '1'
    p = subprocess.run([sys.executable, os.path.join(VERIF_DIR, 'check'), '_smoke'], env=env, capture_output=True, text=True, timeout=300)
    sys.stdout.write(p.stdout[-2000:])
    if p.returncode != 0:
        sys.stdout.write(p.stderr[-2000:])
        return 1
    return 0 if ok else 1


def smoke() -> int:
    """Runs a few cases of C01 in-process without touching evidence files."""
    import shutil
    import tempfile
    from .choices import Choices
    from .driver import scratch_root
    from .registry import get_check
    chk = get_check('C01')
    d = tempfile.mkdtemp(prefix='simlab-smoke-', dir=scratch_root())
    try:
        n = 0
        for i in range(24):
            rec = chk.run(Choices(seed=f'smoke:{i}'), d, 'quick')
            n += 1
        print(f'simlab smoke: {n} simulated runs ok')
    finally:
        shutil.rmtree(d, ignore_errors=True)
    return 0


def main(argv) -> int:
    print('selftests: use tools/selftest_determinism.py and tools/sensitivity.py')
    return 0
