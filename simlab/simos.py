"""SimOS: the process-backend substrate (S2).

The real ForkProcessRunner / SpawnProcessRunner / ProcessExecutor /
ProcessMonitor code runs unmodified on top of simulator objects that replace
`multiprocessing`, `threading.Thread`, `signal`, `os`, `sys` (as imported by
labtech.runners.process) and `multiprocessing`, `datetime` (as imported by
labtech.runners.base).  These are module attributes that already exist, so no
hook is added to the repository.

Models CPython 3.12 multiprocessing on Linux as read from its source
(BaseProcess._bootstrap, manager queue proxies, Popen.terminate).
"""
from __future__ import annotations

import functools
import io
import logging
import os as _real_os
import pickle
import signal as _real_signal
import sys as _real_sys
import traceback
from collections import deque
from datetime import datetime as _real_datetime, timedelta
from queue import Empty, Full
from typing import Any, Optional

from frozendict import frozendict

from labtech.types import TaskInfo, TaskResult

from .sim import Entity, HarnessError, Sim, SimAbort, _Frozen

_SIMOS: dict[int, 'SimOS'] = {}
_NEXT_ID = [1]


def is_task(obj) -> bool:
    """Same test as labtech.types.is_task, without executing labtech code: seam
    code must not create interrupt instants (LINE events) of its own."""
    return isinstance(getattr(type(obj), '_lt', None), TaskInfo) and hasattr(obj, '_is_task')


def live(sim: Sim) -> Sim:
    """A simulated-OS object (queue, process, thread) of a run that is over must not be used by a
    later run: the code under test kept it across run_tasks calls (e.g. in a module-level cache).
    The simulator cannot carry such objects from one simulated OS into the next."""
    if sim.dead:
        raise SimAbort('stale-os-object', 'an OS-level object created during an earlier run_tasks call (earlier simulated OS) was used again')
    return sim


def classify_item(obj) -> str:
    if isinstance(obj, logging.LogRecord):
        return 'log'
    if isinstance(obj, tuple):
        for x in obj:
            if isinstance(x, TaskResult):
                return 'result'
        for x in obj:
            if isinstance(x, BaseException):
                return 'exc'
    return type(obj).__name__


# ------------------------------------------------------------------ queues

def _lookup_queue(os_id: int, qid: int):
    return _SIMOS[os_id].queues[qid]


class SimQueue:
    """FIFO with synchronous put (a Manager queue put is an RPC that returns
    after the server has the item); items are pickled and unpickled on the way
    through, as the real proxy does.

    Every operation is one request/reply exchange of a manager proxy.  All proxies
    of one manager share one connection *per thread*; a KeyboardInterrupt that
    surfaces in the calling thread between the request being sent and the reply
    being read leaves the reply unread on that connection, and every later call of
    that thread to that manager then reads the reply to the call before it.  Only
    the calling thread of the calling process can be interrupted, and helper threads
    and child processes open fresh connections, so only its connections are
    modelled (`SimOS.main_conns`)."""

    def __init__(self, simos: 'SimOS', qid: int, mgr: int = -1, maxsize: int = 0):
        self.simos = simos
        self.sim = simos.sim
        self.qid = qid
        self.maxsize = maxsize if isinstance(maxsize, int) and maxsize > 0 else 0
        self.mgr = mgr if mgr >= 0 else -1 - qid      # queues made without a manager never share a connection
        self.name = f'q{qid}'
        self.items: deque = deque()
        # A queue made by a context (multiprocessing.Queue) instead of a manager is a pipe shared by all
        # processes plus a write lock: a message larger than the pipe buffer reaches the pipe in pieces
        # while the reader drains it; a writer killed in between leaves a truncated message behind (the
        # reader then blocks for ever inside recv, whatever its timeout) and keeps the write lock.
        self.pipe = False
        self.partial_writer = None
        self.poisoned = False

    def __reduce__(self):
        return (_lookup_queue, (self.simos.os_id, self.qid))

    def _exchange(self, sim, method: str, serve):
        """serve() is what the manager's server does for this request; it returns ('ret', value) or
        ('exc', exception).  Returns / raises what the caller of the proxy method gets."""
        so = self.simos
        if sim.me() is not sim.main:
            reply = serve()
        else:
            conn = so.main_conns.setdefault(self.mgr, deque())
            reply = serve()
            so.main_rpcs += 1
            hook = so.on_main_rpc
            if hook is not None:
                try:
                    hook(self, method)
                except KeyboardInterrupt:
                    # request sent and served, reply never read
                    conn.append(reply)
                    sim.ev('rpc-reply-unread', self.name, method)
                    raise
            if conn:
                conn.append(reply)
                reply = conn.popleft()
                sim.ev('rpc-stale-reply', self.name, method, reply[0])
        if reply[0] == 'exc':
            raise reply[1]
        return reply[1]

    def put(self, obj, block=True, timeout=None):
        sim = live(self.sim)
        sim.yp('q.put', self.name)
        data = pickle.dumps(obj)       # pickling errors surface in the caller
        if self.maxsize and len(self.items) >= self.maxsize and block and not (timeout is not None and timeout <= 0):
            sim.block('q.put:' + self.name, lambda: len(self.items) < self.maxsize, timeout)
        if self.pipe:
            if self.poisoned:
                sim.block('q.wlock-held-by-dead-process:' + self.name, lambda: False, None)
            if len(data) > PIPE_BUFFER:
                self.partial_writer = sim.me()
                sim.ev('qfeed', self.name, self.partial_writer.name if self.partial_writer else None, len(data))
                sim.yp('q.feed', self.name)      # header and first part are in the pipe
                self.partial_writer = None

        def serve():
            if self.maxsize and len(self.items) >= self.maxsize:
                sim.ev('qfull', self.name)
                return ('exc', Full())
            self.items.append(data)
            kind = classify_item(obj)
            e = sim.me()
            sim.ev('qput', self.name, e.name if e else None, kind, self.simos.item_brief(obj))
            if kind in ('result', 'exc'):
                sim.note_progress()
                if e is not None and e.kind == 'worker':
                    if e.phase == 'save':
                        sim.ev('save-steps', e.name, e.phase_steps)
                    e.set_phase('post')
            return ('ret', None)
        return self._exchange(sim, 'put', serve)

    def put_nowait(self, obj):
        return self.put(obj, False)

    def get(self, block=True, timeout=None):
        sim = live(self.sim)
        sim.yp('q.get', self.name)
        if not self.items and not (self.pipe and self.poisoned) and block and not (timeout is not None and timeout <= 0):
            # (an interrupt while the caller is blocked here is raised out of block(); the request is
            # treated as withdrawn - labtech only ever blocks on a queue from helper threads)
            sim.block('q.get:' + self.name, lambda: bool(self.items), timeout)

        if self.pipe and self.poisoned and not self.items:
            # poll() says readable, recv_bytes() waits for the rest of a message that will never come
            sim.ev('qrecv-truncated', self.name)
            sim.fired('reader-stuck-on-truncated-message')
            sim.block('q.recv-truncated:' + self.name, lambda: False, None)

        def serve():
            if not self.items:
                return ('exc', Empty())
            data = self.items.popleft()
            obj = pickle.loads(data)
            e = sim.me()
            sim.ev('qget', self.name, e.name if e else None, classify_item(obj), self.simos.item_brief(obj))
            return ('ret', obj)
        return self._exchange(sim, 'get', serve)

    def get_nowait(self):
        return self.get(False)

    def empty(self):
        sim = live(self.sim)
        sim.yp('q.empty', self.name)
        return self._exchange(sim, 'empty', lambda: ('ret', not self.items))

    def qsize(self):
        sim = live(self.sim)
        sim.yp('q.qsize', self.name)
        return self._exchange(sim, 'qsize', lambda: ('ret', len(self.items)))

    def __getattr__(self, name):
        # (only reached for attributes the stand-in does not have)
        if name.startswith('__') and name.endswith('__'):
            raise AttributeError(name)
        raise HarnessError(f'{type(self).__name__}.{name} is not modelled by the simulator')


PIPE_BUFFER = 65536


class SimManager:
    def __init__(self, simos: 'SimOS'):
        self.simos = simos
        self.mid = simos.new_manager_id()

    def Queue(self, maxsize=0):
        return self.simos.new_queue(self.mid, maxsize)

    def shutdown(self):
        pass


# ------------------------------------------------------------------ fork copy

def fork_clone(obj, memo: dict):
    """Structural copy of what a forked child would see: task objects are
    copied with their whole __dict__ (as inherited memory would be), containers
    are copied, everything else (queues, storage, functions, result values) is
    shared."""
    oid = id(obj)
    if oid in memo:
        return memo[oid]
    if is_task(obj):
        new = object.__new__(type(obj))
        memo[oid] = new
        for k, v in obj.__dict__.items():
            object.__setattr__(new, k, fork_clone(v, memo))
        return new
    if type(obj) is tuple:
        new = tuple(fork_clone(x, memo) for x in obj)
    elif type(obj) is list:
        new = [fork_clone(x, memo) for x in obj]
    elif type(obj) is dict:
        new = {fork_clone(k, memo): fork_clone(v, memo) for k, v in obj.items()}
    elif isinstance(obj, frozendict):
        new = frozendict({k: fork_clone(v, memo) for k, v in obj.items()})
    elif isinstance(obj, functools.partial):
        new = functools.partial(obj.func, *fork_clone(obj.args, memo), **fork_clone(obj.keywords, memo))
    else:
        return obj
    memo[oid] = new
    return new


def find_task(obj, depth: int = 0):
    """First task object inside process arguments (used by the fault planner only)."""
    if depth > 4:
        return None
    if is_task(obj):
        return obj
    if isinstance(obj, functools.partial):
        return find_task((obj.args, obj.keywords), depth + 1)
    if isinstance(obj, (tuple, list)):
        for x in obj:
            t = find_task(x, depth + 1)
            if t is not None:
                return t
    elif isinstance(obj, dict):
        for k in ('task',):
            if k in obj and is_task(obj[k]):
                return obj[k]
        for x in obj.values():
            if isinstance(x, (functools.partial, tuple, list)) or is_task(x):
                t = find_task(x, depth + 1)
                if t is not None:
                    return t
    return None


def snapshot_memory(mem):
    """Copy of one _RUNNER_FORK_MEMORY entry as of fork time."""
    import copy
    snap = copy.copy(mem)
    for k, v in vars(mem).items():
        if type(v) is dict:
            setattr(snap, k, dict(v))
    return snap


class ForkMemoryDict(dict):
    """Replacement for labtech.runners.process._RUNNER_FORK_MEMORY: a fork child
    sees the snapshot taken at its start(); a spawn child sees a freshly
    imported (empty) module global."""

    simos: Optional['SimOS'] = None

    def __getitem__(self, k):
        so = self.simos
        if so is not None:
            e = so.sim.me()
            if e is not None and e.kind == 'worker' and e.fork_memory is not None:
                return e.fork_memory[k]
        return dict.__getitem__(self, k)


# ------------------------------------------------------------------ processes

class MainProc:
    def __init__(self):
        self.name = 'MainProcess'
        self.pid = _real_os.getpid()


class SimProcess:
    def __init__(self, simos: 'SimOS', requested: str, group=None, target=None, name=None,
                 args=(), kwargs=None, daemon=None):
        self.simos = simos
        self.sim = simos.sim
        self.requested = requested         # fork | spawn | default (bare multiprocessing.Process)
        self._target = target
        self._args = tuple(args)
        self._kwargs = dict(kwargs or {})
        simos.proc_count += 1
        self.ordinal = simos.proc_count
        self.name = name or f'SimProcess-{self.ordinal}'
        self.pid: Optional[int] = None
        self.daemon = daemon
        self.ent: Optional[Entity] = None
        self._sentinel = None

    # -- parent side
    def start(self):
        sim = live(self.sim)
        simos = self.simos
        sim.yp('p.start', self.ordinal)
        flavour = self.requested if self.requested in ('fork', 'spawn') else simos.default_method
        if flavour == 'spawn':
            # Popen._launch() of the spawn start method first makes sure the resource tracker is running
            simos.ensure_tracker_running()
        if flavour == 'fork':
            memo: dict = {}
            args = fork_clone(self._args, memo)
            kwargs = fork_clone(self._kwargs, memo)
            fmem = {k: snapshot_memory(v) for k, v in dict.items(simos.fork_memory)} if simos.fork_memory is not None else {}
        else:
            # the spawn start method pickles the process object in the parent
            blob = pickle.dumps((self._args, self._kwargs))
            args, kwargs = pickle.loads(blob)
            fmem = {}
        self.pid = 1_000_000 + self.ordinal
        simos.procs_by_pid[self.pid] = self
        parent = sim.me()
        ent = sim.spawn_entity(f'w{self.ordinal}', 'worker', False,
                               lambda e: self._bootstrap(e, args, kwargs))
        ent.proc = self
        ent.flavour = flavour
        ent.fork_memory = fmem
        # a child inherits an ignored SIGINT (fork: the whole disposition table; spawn: SIG_IGN survives exec)
        ent.sigint = 'ignore' if simos.main_sigint == 'ignore' else 'default'
        if flavour == 'fork':
            ent.log_handlers = list(simos.main_handlers())
            ent.stdout = None
            ent.stderr = None
        else:
            ent.log_handlers = []
        ent.tags['boot'] = simos.spawn_boot_steps if flavour == 'spawn' else 0
        # a child inherits the signal mask of the thread that started it, under fork and under spawn (the
        # mask survives fork_exec; measured on CPython 3.12).  What made the first spawned worker of an
        # interpreter start with an empty mask is the resource tracker, see ensure_tracker_running().
        ent.tags['sigint_blocked'] = bool(simos.main_blocked)
        t = find_task((self._args, self._kwargs))
        if t is not None:
            ent.node = getattr(t, 'ident', None)     # lets the fault planner target this worker before run() begins
        self.ent = ent
        sim.worker_count += 1
        sim.note_progress()
        sim.ev('pstart', ent.name, self.requested, flavour, parent.name if parent else None)

    def is_alive(self):
        self.sim.yp('p.is_alive', self.ordinal)
        return self.ent is not None and self.ent.alive

    def terminate(self):
        self.sim.yp('p.terminate', self.ordinal)
        if self.ent is not None and self.ent.alive:
            h = self.ent.tags.get('sigterm_handler', _real_signal.SIG_DFL)
            if h is _real_signal.SIG_IGN:
                self.sim.ev('sigterm-ignored', self.ent.name)
                return
            if h is not _real_signal.SIG_DFL and callable(h):
                # SIGTERM no longer ends the process: its handler runs inside the task process, at the
                # process's next step, and whatever it raises unwinds the task's Python code
                self.sim.ev('sigterm-handled', self.ent.name)
                self.sim.fired('sigterm-to-handler')
                self.ent.pending_exc = (lambda h=h: h(_real_signal.SIGTERM, None))
                return
            self.sim.kill(self.ent, 'terminate', flush_first=self.simos.kill_flush)

    def kill(self):
        self.sim.yp('p.kill', self.ordinal)
        if self.ent is not None and self.ent.alive:
            self.sim.kill(self.ent, 'kill', flush_first=self.simos.kill_flush)

    def join(self, timeout=None):
        ent = self.ent
        if ent is None:
            raise AssertionError('can only join a started process')
        self.sim.block('p.join', lambda: not ent.alive, timeout)

    def close(self):
        pass

    @property
    def exitcode(self):
        if self.ent is None or self.ent.alive:
            return None
        return self.ent.exit_code

    @property
    def sentinel(self):
        """A real descriptor, as the real attribute is (so that the real multiprocessing.connection.wait
        and selectors work on it): the read end of a pipe whose write end is closed once the simulated
        process is dead and has left no descendant behind that inherited it."""
        if self.ent is None:
            raise ValueError('process not started')
        if self._sentinel is None:
            r, w = _real_os.pipe()
            self._sentinel = [r, w]
            self.simos.sentinels.append(self)
            self.refresh_sentinel()
        return self._sentinel[0]

    def refresh_sentinel(self):
        st = self._sentinel
        if st is not None and st[1] is not None and self.ent is not None and not self.ent.alive \
                and not self.ent.tags.get('descendants'):
            _real_os.close(st[1])
            st[1] = None

    def close_sentinel(self):
        st = self._sentinel
        if st is not None:
            for fd in st:
                if fd is not None:
                    try:
                        _real_os.close(fd)
                    except OSError:
                        pass
            self._sentinel = None

    def __getattr__(self, name):
        # (only reached for attributes the stand-in does not have)
        if name.startswith('__') and name.endswith('__'):
            raise AttributeError(name)
        raise HarnessError(f'{type(self).__name__}.{name} is not modelled by the simulator')

    # -- child side (runs in the entity's thread)
    def _bootstrap(self, ent: Entity, args, kwargs):
        sim = self.sim
        simos = self.simos
        code = 0
        try:
            try:
                for _ in range(ent.tags.get('boot', 0)):
                    sim.yp('boot')         # interpreter start-up of a spawned child
                ent.set_phase('pre')
                sim.yp('p.entry')
                self._target(*args, **kwargs)
            except (SimAbort, _Frozen):
                raise
            except SystemExit as e:
                code = e.code if isinstance(e.code, int) else (0 if e.code is None else 1)
            except BaseException as ex:
                code = 1
                sim.ev('pexc', ent.name, type(ex).__name__)
                err = simos.stream_of(ent, 'stderr')
                try:
                    err.write(f'Process {self.name}:\n')
                    err.write(''.join(traceback.format_exception(type(ex), ex, ex.__traceback__)))
                except (SimAbort, _Frozen):
                    raise
                except BaseException:
                    pass
            # BaseProcess._bootstrap: finally: threading._shutdown() waits for the non-daemon threads the task
            # left behind (an uploader thread of a tracking library, say): the process lingers, its task is over
            linger = simos.linger.get(ent.node) if ent.node is not None else None
            if linger:
                sim.ev('linger', ent.name, ent.node, linger)
                sim.fired('process-lingers')
                sim.block('linger', lambda: False, linger)
            # BaseProcess._bootstrap: finally: util._flush_std_streams()
            ent.set_phase('exit')
            try:
                sim.yp('p.exitflush')
            except KeyboardInterrupt:
                # SIGINT with the default disposition while the interpreter is already finishing
                code = 1
                sim.ev('pexc', ent.name, 'KeyboardInterrupt')
            # fork: _bootstrap flushes once, then os._exit.  spawn: _bootstrap flushes, then
            # the child interpreter finalises and flushes sys.stdout/sys.stderr once more.
            for _round in range(2 if ent.flavour == 'spawn' else 1):
                for which in ('stdout', 'stderr'):
                    s = simos.stream_of(ent, which)
                    try:
                        s.flush()
                    except (SimAbort, _Frozen):
                        raise
                    except BaseException:
                        pass
            sim.ev('pexit', ent.name, code)
        except _Frozen:
            return
        except SimAbort as ab:
            # raised inside this entity (e.g. a stale OS object): the whole run is aborted, the baton goes to main
            if sim.dead:
                return
            if sim.aborted is None:
                sim._set_abort(ab.reason, ab.detail)
            code = 1
        sim.exit_entity(ent, code)


class SimContext:
    def __init__(self, simos: 'SimOS', method: str):
        self.simos = simos
        self._name = method

    def Process(self, *a, **kw):
        return SimProcess(self.simos, self._name, *a, **kw)

    def Manager(self):
        return SimManager(self.simos)

    def Queue(self, maxsize=0):
        return self.simos.new_queue(-1, maxsize, pipe=True)

    def get_start_method(self, allow_none=False):
        return self._name

    def get_context(self, method=None):
        return self if method is None else SimContext(self.simos, method)

    def cpu_count(self):
        return self.simos.cpu_count


class SimPsProcess:
    """psutil.Process for a simulated task process: constructible while the process exists; afterwards the
    cached / cheap readings still answer (create_time, children) and every other reading raises
    psutil.NoSuchProcess, as psutil does for a process that has gone."""

    def __init__(self, simos: 'SimOS', pid):
        import psutil as _ps
        self._ps = _ps
        proc = simos.procs_by_pid.get(pid)
        if proc is None or proc.ent is None or not proc.ent.alive:
            raise _ps.NoSuchProcess(pid)
        self._proc = proc
        self.pid = pid
        self._created = 1.9e9 + proc.ordinal

    def _check(self):
        if not self._proc.ent.alive:
            raise self._ps.NoSuchProcess(self.pid)

    def oneshot(self):
        import contextlib
        return contextlib.nullcontext()

    def create_time(self):
        return self._created

    def children(self, recursive=False):
        return []

    def is_running(self):
        return bool(self._proc.ent.alive)

    def num_threads(self):
        self._check()
        return 1

    def cpu_percent(self, interval=None):
        self._check()
        return 0.0

    def memory_percent(self, memtype='rss'):
        self._check()
        return 0.1

    def __getattr__(self, name):
        if name.startswith('__') and name.endswith('__'):
            raise AttributeError(name)
        raise HarnessError(f'psutil.Process.{name} is not modelled by the simulator')


class PsutilShim:
    """`psutil` as seen by labtech.runners.process."""

    def __init__(self, simos: 'SimOS'):
        import psutil as _ps
        self._simos = simos
        self._ps = _ps
        self.NoSuchProcess = _ps.NoSuchProcess

    def Process(self, pid=None):
        return SimPsProcess(self._simos, pid)

    def __getattr__(self, name):
        return getattr(self._ps, name)


class ResourceTrackerShim:
    """multiprocessing.resource_tracker"""

    def __init__(self, simos: 'SimOS'):
        self._simos = simos

    def ensure_running(self):
        self._simos.sim.yp('tracker.ensure_running')
        self._simos.ensure_tracker_running()


class MPShim:
    """Stands in for the `multiprocessing` module object."""

    def __init__(self, simos: 'SimOS', real):
        self._simos = simos
        self._real = real
        self.context = real.context
        self.process = real.process

    def Manager(self):
        return SimManager(self._simos)

    @property
    def resource_tracker(self):
        return ResourceTrackerShim(self._simos)

    def Process(self, *a, **kw):
        return SimProcess(self._simos, 'default', *a, **kw)

    def Queue(self, maxsize=0):
        return self._simos.new_queue(-1, maxsize, pipe=True)

    def get_context(self, method=None):
        return SimContext(self._simos, method or self._simos.default_method)

    def get_start_method(self, allow_none=False):
        return self._simos.default_method

    def get_all_start_methods(self):
        return ['fork', 'spawn', 'forkserver']

    def current_process(self):
        return self._simos.current_process()

    def cpu_count(self):
        return self._simos.cpu_count

    def __getattr__(self, name):
        raise HarnessError(f'multiprocessing.{name} is not modelled by the simulator')


# ------------------------------------------------------------------ threads

class SimThread:
    """Stands in for threading.Thread as used by labtech.runners.process."""

    def __init__(self, simos: 'SimOS', group=None, target=None, name=None, args=(), kwargs=None, daemon=None):
        self.simos = simos
        self.sim = simos.sim
        self._target = target
        self._args = args
        self._kwargs = kwargs or {}
        self.ent: Optional[Entity] = None
        self.name = name
        self.daemon = daemon

    def start(self):
        sim = live(self.sim)
        sim.yp('t.start')
        sim.helper_count += 1
        n = sim.helper_count

        def body(e: Entity):
            try:
                self._target(*self._args, **self._kwargs)
            except _Frozen:
                return
            except SimAbort as ab:
                if sim.dead:
                    return
                if sim.aborted is None:
                    sim._set_abort(ab.reason, ab.detail)
            except BaseException as ex:
                sim.ev('thread-exc', e.name, type(ex).__name__, str(ex)[:80])
            sim.exit_entity(e, 0)

        self.ent = sim.spawn_entity(f'h{n}', 'helper', True, body)
        sim.ev('tstart', self.ent.name)

    def join(self, timeout=None):
        ent = self.ent
        if ent is None:
            raise RuntimeError('cannot join thread before it is started')
        self.sim.block('t.join', lambda: not ent.alive, timeout)

    def is_alive(self):
        return self.ent is not None and self.ent.alive


# ------------------------------------------------------------------ module shims

class SignalShim:
    def __init__(self, simos: 'SimOS'):
        self._simos = simos

    def signal(self, signum, handler):
        so = self._simos
        sim = so.sim
        sim.yp('signal')
        e = sim.me()
        if signum == _real_signal.SIGTERM and e is not None and e.kind == 'worker':
            # what Process.terminate() will meet in this task process
            previous = e.tags.get('sigterm_handler', _real_signal.SIG_DFL)
            e.tags['sigterm_handler'] = handler
            sim.ev('sigterm-disp', e.name, 'default' if handler is _real_signal.SIG_DFL else
                   ('ignore' if handler is _real_signal.SIG_IGN else 'handler'))
            return previous
        if signum != _real_signal.SIGINT:
            return _real_signal.SIG_DFL
        if handler is _real_signal.SIG_IGN:
            disp = 'ignore'
        elif handler is _real_signal.SIG_DFL or handler is _real_signal.default_int_handler:
            disp = 'default'
        else:
            disp = 'handler'
        if e is not None and e.kind == 'worker':
            previous = e.tags.get('sigint_handler', _real_signal.default_int_handler if e.sigint == 'default' else _real_signal.SIG_IGN)
            e.sigint = disp
            e.tags['sigint_handler'] = handler
            sim.ev('sigdisp', e.name, e.sigint)
            return previous
        # the calling process itself changes its SIGINT disposition
        previous = so.main_sigint_handler
        so.main_sigint = disp
        so.main_sigint_handler = handler
        sim.ev('sigdisp', 'main', disp)
        return previous

    def pthread_sigmask(self, how, mask):
        """Signal mask of the calling simulated thread (only SIGINT is modelled).  A blocked SIGINT
        stays pending and is delivered when it is unblocked (discarded if it is ignored by then)."""
        so = self._simos
        sim = so.sim
        e = sim.me()
        has = _real_signal.SIGINT in set(mask)
        if e is not None and e.kind == 'worker':
            old = {_real_signal.SIGINT} if e.tags.get('sigint_blocked') else set()
            blocked = bool(e.tags.get('sigint_blocked'))
            if how == _real_signal.SIG_BLOCK and has:
                blocked = True
            elif how == _real_signal.SIG_UNBLOCK and has:
                blocked = False
            elif how == _real_signal.SIG_SETMASK:
                blocked = has
            e.tags['sigint_blocked'] = blocked
            if not blocked and e.tags.pop('sigint_pending', False):
                if e.sigint == 'default':
                    sim.ev('sigint-child-late', e.name, e.phase)
                    raise KeyboardInterrupt()
                sim.ev('sigint-child-discarded', e.name)
            return old
        old = {_real_signal.SIGINT} if so.main_blocked else set()
        blocked = so.main_blocked
        if how == _real_signal.SIG_BLOCK and has:
            blocked = True
        elif how == _real_signal.SIG_UNBLOCK and has:
            blocked = False
        elif how == _real_signal.SIG_SETMASK:
            blocked = has
        so.main_blocked = blocked
        if not blocked and so.main_pending_sigint:
            so.main_pending_sigint = False
            if so.main_sigint != 'ignore':
                sim.ev('sigint-unblocked', 'main')
                if so.on_main_unblocked is not None:
                    so.on_main_unblocked()
                raise KeyboardInterrupt()
        return old

    def __getattr__(self, name):
        return getattr(_real_signal, name)


class OsShim:
    def __init__(self, simos: 'SimOS'):
        self._simos = simos

    def cpu_count(self):
        return self._simos.cpu_count

    def __getattr__(self, name):
        return getattr(_real_os, name)


class SysShim:
    """`sys` as seen by labtech.runners.process: stdout/stderr are per
    simulated process."""

    def __init__(self, simos: 'SimOS'):
        object.__setattr__(self, '_simos', simos)

    def __getattr__(self, name):
        if name in ('stdout', 'stderr'):
            return self._simos.stream_of(self._simos.sim.me(), name)
        return getattr(_real_sys, name)

    def __setattr__(self, name, value):
        if name in ('stdout', 'stderr'):
            e = self._simos.sim.me()
            if e is not None and e.kind == 'worker':
                setattr(e, name, value)
                return
            raise HarnessError(f'sys.{name} assigned outside a simulated worker')
        setattr(_real_sys, name, value)


class StreamDispatcher(io.TextIOBase):
    """Installed as the real sys.stdout / sys.stderr during a simulation:
    print() inside a simulated worker goes to that worker's stream."""

    def __init__(self, simos: 'SimOS', which: str, fallback):
        self._simos = simos
        self._which = which
        self._fallback = fallback
        self._inside: set = set()      # entities currently inside write()/flush() of their own stream

    def _target(self):
        so = self._simos
        e = so.sim.me() if so is not None else None
        if e is not None and e.kind == 'worker' and not so.sim.dead:
            return e, so.stream_of(e, self._which)
        return None, self._fallback

    def _call(self, op, *a):
        # A logging handler created in the caller holds a reference to *this* object where in reality it
        # holds the caller's real stream.  If such a handler is (wrongly) still attached inside a worker,
        # writing through it from inside the worker's own stream must not come back to that stream.
        e, t = self._target()
        if e is not None and e in self._inside:
            t = self._fallback
            e = None
        if e is not None:
            self._inside.add(e)
        try:
            return getattr(t, op)(*a)
        finally:
            if e is not None:
                self._inside.discard(e)

    def write(self, s):
        return self._call('write', s)

    def flush(self):
        return self._call('flush')

    def isatty(self):
        return False

    @property
    def encoding(self):
        return 'utf-8'

    def fileno(self):
        return self._fallback.fileno()


class Sink(io.TextIOBase):
    """What a worker's inherited fd 1/2 point at: counts, keeps nothing."""

    def __init__(self):
        self.written = 0

    def write(self, s):
        self.written += len(s)
        return len(s)

    def flush(self):
        pass

    def isatty(self):
        return False

    def fileno(self):
        raise OSError('no fileno')


class DatetimeShim(_real_datetime):
    """datetime with a virtual-clock now()."""
    _simos: Optional['SimOS'] = None
    EPOCH = _real_datetime(2030, 1, 1, 0, 0, 0)

    @classmethod
    def now(cls, tz=None):
        so = cls._simos
        if so is None:
            return _real_datetime.now(tz)
        so.ticks += 1
        # (coarse: the clock's resolution is above the running time of a short task)
        t = cls.EPOCH + timedelta(seconds=so.sim.clock, microseconds=0 if so.coarse_clock else so.ticks)
        return t


def _make_logger_class(simos_ref):
    base = logging.Logger

    class SimLogger(base):
        """labtech.logger with per-simulated-process handlers."""

        @property
        def handlers(self):
            so = simos_ref[0]
            if so is not None:
                e = so.sim.me()
                if e is not None and e.kind == 'worker' and e.log_handlers is not None:
                    return e.log_handlers
            return self.__dict__['handlers']

        @handlers.setter
        def handlers(self, value):
            so = simos_ref[0]
            if so is not None:
                e = so.sim.me()
                if e is not None and e.kind == 'worker':
                    e.log_handlers = value
                    return
            self.__dict__['handlers'] = value

    return SimLogger


_LOGGER_REF: list = [None]
_LOGGER_CLASS = None


# ------------------------------------------------------------------ SimOS

class SimOS:
    def __init__(self, sim: Sim, *, cpu_count: int = 2, default_method: str = 'fork',
                 spawn_boot_steps: int = 2, kill_flush: bool = False):
        self.sim = sim
        self.os_id = _NEXT_ID[0]
        _NEXT_ID[0] += 1
        _SIMOS[self.os_id] = self
        self.cpu_count = cpu_count
        self.default_method = default_method
        self.spawn_boot_steps = spawn_boot_steps
        self.kill_flush = kill_flush
        self.queues: list[SimQueue] = []
        self.sentinels: list = []             # started processes whose sentinel descriptor was asked for
        self.procs_by_pid: dict = {}
        sim.kill_callbacks.append(self._on_kill)
        sim.exit_callbacks.append(self._on_exit)
        self.proc_count = 0
        self.ticks = 0
        self.coarse_clock = False
        self.main_proc = MainProc()
        self.main_sigint = 'default'          # SIGINT disposition of the calling process
        self.main_sigint_handler = _real_signal.default_int_handler
        self.main_blocked = False             # SIGINT blocked in the calling thread (pthread_sigmask)
        self.main_pending_sigint = False
        self.on_main_unblocked = None
        self.linger: dict = {}                # node -> seconds its process stays alive after the task is over
        self.tracker_running = False          # multiprocessing's resource tracker (started by the first spawn)
        self.on_main_rpc = None               # called between request and reply of a proxy call of the calling thread
        self.main_rpcs = 0
        self.main_conns: dict = {}            # manager id -> replies left unread on the calling thread's connection
        self.managers = 0
        self.fork_memory: Optional[ForkMemoryDict] = None
        self.sink_out = Sink()
        self.sink_err = Sink()
        self._saved: list = []
        self.installed = False
        self.brief_fn = None

    # -- helpers used by the shims
    def _on_exit(self, ent) -> None:
        for p in self.sentinels:
            p.refresh_sentinel()

    def _on_kill(self, ent) -> None:
        for p in self.sentinels:
            p.refresh_sentinel()
        for q in self.queues:
            if q.partial_writer is ent:
                q.partial_writer = None
                q.poisoned = True
                self.sim.ev('qpoisoned', q.name, ent.name)
                self.sim.fired('writer-killed-mid-message')

    def ensure_tracker_running(self) -> None:
        """multiprocessing.resource_tracker.ensure_running(): the first time (per interpreter) it spawns the
        tracker process with SIGINT and SIGTERM blocked and afterwards *unblocks* them in the calling
        thread, whatever the mask was before (bpo-33613).  A pending SIGINT is delivered then."""
        if self.tracker_running:
            return
        self.tracker_running = True
        me = self.sim.me()
        self.sim.ev('resource-tracker-started', me.name if me else None, 'sigint-was-blocked' if self.main_blocked else 'sigint-was-unblocked')
        if me is self.sim.main:
            if self.main_blocked:
                self.sim.fired('tracker-start-unblocked-sigint')
            SignalShim(self).pthread_sigmask(_real_signal.SIG_UNBLOCK, {_real_signal.SIGINT})

    def new_manager_id(self) -> int:
        self.managers += 1
        return self.managers - 1

    def new_queue(self, mgr: int = -1, maxsize: int = 0, pipe: bool = False) -> SimQueue:
        q = SimQueue(self, len(self.queues), mgr, maxsize)
        q.pipe = pipe
        self.queues.append(q)
        return q

    def item_brief(self, obj):
        if self.brief_fn is not None:
            try:
                return self.brief_fn(obj)
            except Exception:
                return None
        return None

    def current_process(self):
        e = self.sim.me()
        if e is not None and e.kind == 'worker' and e.proc is not None:
            return e.proc
        return self.main_proc

    def main_handlers(self):
        from labtech.utils import logger
        return logger.__dict__['handlers']

    def stream_of(self, e: Optional[Entity], which: str):
        if e is not None and e.kind == 'worker':
            s = getattr(e, which)
            if s is None:
                return self.sink_out if which == 'stdout' else self.sink_err
            return s
        return self._real_streams[which]

    # -- installation
    def install(self) -> None:
        global _LOGGER_CLASS
        import labtech.runners.base as base_mod
        import labtech.runners.process as proc_mod
        from labtech.utils import logger
        import multiprocessing as real_mp

        required = [(proc_mod, 'multiprocessing'), (proc_mod, 'Thread'), (proc_mod, 'signal'),
                    (proc_mod, 'sys'), (proc_mod, 'os'), (base_mod, 'multiprocessing'),
                    (base_mod, 'datetime'), (proc_mod, '_RUNNER_FORK_MEMORY')]
        for mod, attr in required:
            if not hasattr(mod, attr):
                raise HarnessError(f'seam missing: {mod.__name__}.{attr}')

        def patch(mod, attr, value):
            self._saved.append((mod, attr, getattr(mod, attr)))
            setattr(mod, attr, value)

        mp = MPShim(self, real_mp)
        patch(proc_mod, 'multiprocessing', mp)
        patch(base_mod, 'multiprocessing', mp)
        patch(proc_mod, 'Thread', functools.partial(SimThread, self))
        patch(proc_mod, 'signal', SignalShim(self))
        patch(proc_mod, 'sys', SysShim(self))
        patch(proc_mod, 'os', OsShim(self))
        patch(proc_mod, 'psutil', PsutilShim(self))
        DatetimeShim._simos = self
        patch(base_mod, 'datetime', DatetimeShim)
        fm = ForkMemoryDict(proc_mod._RUNNER_FORK_MEMORY)
        fm.simos = self
        self.fork_memory = fm
        patch(proc_mod, '_RUNNER_FORK_MEMORY', fm)

        self._real_streams = {'stdout': _real_sys.stdout, 'stderr': _real_sys.stderr}
        patch(_real_sys, 'stdout', StreamDispatcher(self, 'stdout', _real_sys.stdout))
        patch(_real_sys, 'stderr', StreamDispatcher(self, 'stderr', _real_sys.stderr))

        if _LOGGER_CLASS is None:
            _LOGGER_CLASS = _make_logger_class(_LOGGER_REF)
        self._logger_orig_class = logger.__class__
        _LOGGER_REF[0] = self
        logger.__class__ = _LOGGER_CLASS
        self.installed = True

    def uninstall(self) -> None:
        if not self.installed:
            return
        from labtech.utils import logger
        for mod, attr, old in reversed(self._saved):
            setattr(mod, attr, old)
        self._saved = []
        DatetimeShim._simos = None
        _LOGGER_REF[0] = None
        logger.__class__ = self._logger_orig_class
        if self.fork_memory is not None:
            self.fork_memory.simos = None
        self.installed = False
        for p in self.sentinels:
            p.close_sentinel()
        self.sentinels = []
        _SIMOS.pop(self.os_id, None)
