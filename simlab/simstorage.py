"""SimStorage: a Storage (public ABC seam) that wraps a real Storage.

Every storage call and every write/flush/close/read on the returned handles is
reported to a controller *before* it is executed.  The controller may record
it, turn it into a scheduler yield point (S2), inject an exception (C12) or
kill the calling simulated process there (C13).  The real buffering of the
underlying file objects is kept; on a simulated kill the user-space buffers are
lost by redirecting the descriptor to /dev/null.
"""
from __future__ import annotations

import os
from typing import IO, Sequence

from labtech.types import Storage

_REGISTRY: dict[int, 'SimStorage'] = {}
_NEXT = [1]


def _lookup(rid: int) -> 'SimStorage':
    return _REGISTRY[rid]


class NullCtl:
    def storage_op(self, st, kind, key, filename=None, mode=None):
        pass

    def file_op(self, f, kind, n=0):
        pass

    def file_opened(self, f):
        pass

    def file_closed(self, f):
        pass


class SimFile:
    """Thin proxy around a real file object."""

    def __init__(self, storage: 'SimStorage', real, key: str, filename: str, mode: str):
        self._st = storage
        self._real = real
        self.key = key
        self.filename = filename
        self.mode = mode
        self.closed_by_sim = False
        self.owner = None
        self.nwrites = 0
        storage.ctl.file_opened(self)

    # -- context manager
    def __enter__(self):
        return self

    def __exit__(self, *exc):
        self.close()
        return False

    # -- writes
    def write(self, data):
        ctl = self._st.ctl
        self.nwrites += 1
        n = len(data)
        act = ctl.file_op(self, 'write', n)
        if act is not None and act[0] == 'torn':
            # part of the data reaches the file, then the write fails
            self._real.write(data[:max(1, n // 2)])
            raise act[1]
        split = self._st.split_threshold
        if split and n > split and 'b' in self.mode:
            # a large write reaches the OS in several system calls; each boundary
            # is a yield point / kill point
            cut = (n // 2 // 4096) * 4096 or n // 2
            self._real.write(data[:cut])
            self._real.flush()
            ctl.file_op(self, 'write-split', n - cut)
            self._real.write(data[cut:])
            return n
        return self._real.write(data)

    def flush(self):
        self._st.ctl.file_op(self, 'flush')
        return self._real.flush()

    def close(self):
        if self._real.closed:
            return
        try:
            self._st.ctl.file_op(self, 'close')
        except Exception:
            # an injected close() failure: what was still buffered is lost and the descriptor is gone - the
            # real object must not flush its buffer into the file at some later garbage collection
            self.lose_buffers(False)
            try:
                self._real.close()
            except Exception:
                pass
            self.closed_by_sim = True
            self._st.ctl.file_closed(self)
            raise
        try:
            self._real.close()
        finally:
            self.closed_by_sim = True
            self._st.ctl.file_closed(self)

    def __del__(self):
        # A handle that is dropped without close() is closed by its finaliser, as a real buffered file is:
        # the final flush and the close happen then (still a fault point), and an error they raise is
        # printed as "Exception ignored" and lost to the caller.
        try:
            if self._real.closed:
                return
            sim = getattr(self._st.ctl, 'sim', None)
            if sim is not None and (sim.dead or sim.me() is None):
                return
            if self.owner is not None and not getattr(self.owner, 'alive', True):
                return      # the owning process is dead: its buffers were dealt with by the kill
            self.close()
        except BaseException:
            pass

    # -- reads
    def read(self, *a):
        self._st.ctl.file_op(self, 'read')
        return self._real.read(*a)

    def readline(self, *a):
        self._st.ctl.file_op(self, 'read')
        return self._real.readline(*a)

    def readinto(self, b):
        self._st.ctl.file_op(self, 'read')
        return self._real.readinto(b)

    def __iter__(self):
        return iter(self._real)

    @property
    def closed(self):
        return self._real.closed

    def __getattr__(self, name):
        return getattr(self._real, name)

    # -- simulator side
    def lose_buffers(self, flush_first: bool):
        """Emulate the death of the owning process: nothing still held in
        user-space buffers reaches the file (unless flush_first)."""
        real = self._real
        try:
            if flush_first:
                real.flush()
            fd = real.fileno()
            dn = os.open(os.devnull, os.O_RDWR)
            os.dup2(dn, fd)
            os.close(dn)
        except Exception:
            pass


class SimStorage(Storage):

    def __init__(self, inner: Storage, ctl=None, split_threshold: int = 0):
        self.inner = inner
        self.ctl = ctl or NullCtl()
        self.split_threshold = split_threshold
        self.local_dir = None         # set by the harness when `inner` is a LocalStorage over that directory
        self.delete_order = None      # None: delete is one step; 'sorted' / 'reverse': file by file
        self.rid = _NEXT[0]
        _NEXT[0] += 1
        _REGISTRY[self.rid] = self

    def __reduce__(self):
        # crossing a (simulated) process boundary: the "disk" stays the same
        return (_lookup, (self.rid,))

    def release(self):
        _REGISTRY.pop(self.rid, None)

    def find_keys(self) -> Sequence[str]:
        self.ctl.storage_op(self, 'find_keys', None)
        return self.inner.find_keys()

    def exists(self, key: str) -> bool:
        self.ctl.storage_op(self, 'exists', key)
        return self.inner.exists(key)

    def file_handle(self, key: str, filename: str, *, mode: str = 'r') -> IO:
        self.ctl.storage_op(self, 'open', key, filename, mode)
        real = self.inner.file_handle(key, filename, mode=mode)
        return SimFile(self, real, key, filename, mode)  # type: ignore[return-value]

    def delete(self, key: str) -> None:
        self.ctl.storage_op(self, 'delete', key)
        d = self._plain_key_dir(key)
        if d is not None:
            # A recursive delete is not one atomic step: LocalStorage.delete is shutil.rmtree, which
            # unlinks the files of the entry one at a time (in directory order), object stores delete
            # object by object in listing order.  Each unlink is a yield / kill / fault point.
            names = sorted(os.listdir(d))
            if self.delete_order == 'reverse':
                names.reverse()
            for name in names:
                self.ctl.storage_op(self, 'unlink', key, name)
                os.unlink(os.path.join(d, name))
            self.ctl.storage_op(self, 'rmdir', key)
            os.rmdir(d)
            return None
        return self.inner.delete(key)

    def _plain_key_dir(self, key: str):
        """The entry directory, if this wraps a LocalStorage over a known directory and the entry is a
        flat directory of regular files (otherwise the real delete runs as one step)."""
        if not self.local_dir or not self.delete_order or not isinstance(key, str) or not key:
            return None
        if any(c in key for c in '/\\.') or os.sep in key:
            return None
        d = os.path.join(self.local_dir, key)
        if not os.path.isdir(d) or os.path.islink(d):
            return None
        for name in os.listdir(d):
            full = os.path.join(d, name)
            if os.path.islink(full) or not os.path.isfile(full):
                return None
        return d
