"""Property id -> check object."""
from __future__ import annotations

_CACHE = {}


def _all():
    if not _CACHE:
        from .props import CHECKS
        _CACHE.update(CHECKS)
        from .props_faults import C12, C13
        _CACHE['C12'] = C12()
        _CACHE['C13'] = C13()
        from .props_history import C08, C09
        _CACHE['C08'] = C08()
        _CACHE['C09'] = C09()
        from .props_interrupt import C14
        _CACHE['C14'] = C14()
    return _CACHE


def get_check(prop: str):
    c = _all()
    if prop in c:
        return c[prop]
    raise KeyError(f'no check registered for {prop}')


def all_ids():
    return sorted(_all())
