"""Property id -> check object."""
from __future__ import annotations


def get_check(prop: str):
    from .props import CHECKS
    if prop in CHECKS:
        return CHECKS[prop]
    raise KeyError(f'no check registered for {prop}')


def all_ids():
    from .props import CHECKS
    return sorted(CHECKS)
