"""S3 real-OS probe for C19: uniquely tokenised logger records, printed lines, stderr lines and
flush patterns on the real process backends; every required token must reach a handler on the
caller's labtech logger exactly once before run_tasks returns.  A dependency chain fixes which
task finishes last (no timing involved).

Run as:  python simlab/reallog.py <backend>      prints 'LOGPROBE <json>'
"""
import json
import logging
import sys

import labtech
from labtech import logger


@labtech.task(cache=None)
class Emit:
    ident: int
    pattern: str
    dep: object = None

    def run(self):
        if self.dep is not None:
            _ = self.dep.result
        i = self.ident
        logger.info(f'LOG{i}a')
        print(f'OUT{i}a')
        if self.pattern in ('flush', 'flush2'):
            sys.stdout.flush()
        sys.stderr.write(f'ERR{i}a\n')
        logger.warning(f'LOG{i}b')
        print(f'OUT{i}b')
        if self.pattern == 'flush2':
            sys.stdout.flush()
            sys.stderr.flush()
            print(f'OUT{i}c')
        if self.pattern == 'fails':
            raise RuntimeError('planned failure after output')
        if self.pattern == 'chatty':
            # the same status line three times, then many records within one polling interval
            for _ in range(3):
                print(f'SAME{i}s')
            for j in range(BURST):
                logger.info(f'BST{i}n{j}e')
        return i


BURST = 3000


class Collect(logging.Handler):
    def __init__(self):
        super().__init__(level=0)
        self.msgs = []

    def emit(self, record):
        self.msgs.append(record.getMessage())


def main(argv):
    backend = argv[1]
    h = Collect()
    logger.handlers = [h]
    logger.setLevel(logging.INFO)
    logger.propagate = False
    a = Emit(ident=1, pattern='plain')
    b = Emit(ident=2, pattern='flush', dep=a)
    c = Emit(ident=3, pattern='flush2', dep=b)      # finishes last
    d = Emit(ident=4, pattern='plain')
    e = Emit(ident=5, pattern='chatty')
    f = Emit(ident=6, pattern='fails', dep=d)        # prints, then raises (continue_on_failure)
    lab = labtech.Lab(storage=None, runner_backend=backend, notebook=False, max_workers=2)
    lab.run_tasks([c, d, e, f], disable_progress=True, disable_top=True)
    delivered = list(h.msgs)                          # at the moment run_tasks returned
    tokens = []
    for i, pattern in ((1, 'plain'), (2, 'flush'), (3, 'flush2'), (4, 'plain'), (6, 'fails')):
        tokens += [f'LOG{i}a', f'LOG{i}b', f'OUT{i}a', f'OUT{i}b', f'ERR{i}a']
        if pattern == 'flush2':
            tokens.append(f'OUT{i}c')
    counts = {t: sum(m.count(t) for m in delivered) for t in tokens}
    expected = {t: 1 for t in tokens}
    counts['SAME5s'] = sum(m.count('SAME5s') for m in delivered)
    expected['SAME5s'] = 3
    burst = [m for m in delivered if m.startswith('BST5n')]
    want = [f'BST5n{j}e' for j in range(BURST)]
    counts['BST5(burst)'] = len(burst)
    expected['BST5(burst)'] = BURST
    counts['BST5(in order, each once)'] = int(burst == want)
    expected['BST5(in order, each once)'] = 1
    sys.__stdout__.write('LOGPROBE ' + json.dumps({'backend': backend, 'counts': counts, 'expected': expected}) + '\n')
    sys.__stdout__.flush()
    return 0


if __name__ == '__main__':
    sys.exit(main(sys.argv))
